//! Counting global allocator: per-thread live and peak bytes, so that a run can bound what a
//! parser allocated. (Allocation *failure* is not simulated: it aborts the process in Rust.)

use std::{
    alloc::{GlobalAlloc, Layout, System},
    cell::Cell,
};

thread_local! {
    static LIVE: Cell<usize> = const { Cell::new(0) };
    static PEAK: Cell<usize> = const { Cell::new(0) };
}

pub struct Counting;

/// Requests at or above this size are served by reserving address space without committing
/// memory (mmap MAP_NORESERVE), so that an absurd allocation provoked by a hostile count field
/// becomes a measured number (and a reported violation) instead of an allocation failure, which
/// aborts the process in Rust and would take the whole batch down with it.
const HUGE: usize = 1 << 30;

unsafe fn huge_alloc(size: usize, align: usize) -> *mut u8 {
    if align > 4096 {
        return std::ptr::null_mut();
    }
    let p = libc::mmap(
        std::ptr::null_mut(),
        size,
        libc::PROT_READ | libc::PROT_WRITE,
        libc::MAP_PRIVATE | libc::MAP_ANONYMOUS | libc::MAP_NORESERVE,
        -1,
        0,
    );
    if p == libc::MAP_FAILED {
        std::ptr::null_mut()
    } else {
        p as *mut u8
    }
}

unsafe impl GlobalAlloc for Counting {
    unsafe fn alloc(&self, l: Layout) -> *mut u8 {
        let p = if l.size() >= HUGE { huge_alloc(l.size(), l.align()) } else { System.alloc(l) };
        if !p.is_null() {
            add(l.size());
        }
        p
    }
    unsafe fn dealloc(&self, p: *mut u8, l: Layout) {
        if l.size() >= HUGE {
            let _ = libc::munmap(p as *mut libc::c_void, l.size());
        } else {
            System.dealloc(p, l);
        }
        sub(l.size());
    }
    unsafe fn alloc_zeroed(&self, l: Layout) -> *mut u8 {
        // anonymous mappings are zero-filled
        let p = if l.size() >= HUGE { huge_alloc(l.size(), l.align()) } else { System.alloc_zeroed(l) };
        if !p.is_null() {
            add(l.size());
        }
        p
    }
    unsafe fn realloc(&self, p: *mut u8, l: Layout, new: usize) -> *mut u8 {
        if l.size() >= HUGE || new >= HUGE {
            // move between the two worlds by hand
            let nl = Layout::from_size_align_unchecked(new, l.align());
            let q = self.alloc(nl);
            if !q.is_null() {
                std::ptr::copy_nonoverlapping(p, q, l.size().min(new));
                self.dealloc(p, l);
            }
            return q;
        }
        let q = System.realloc(p, l, new);
        if !q.is_null() {
            if new >= l.size() {
                add(new - l.size());
            } else {
                sub(l.size() - new);
            }
        }
        q
    }
}

fn add(n: usize) {
    let _ = LIVE.try_with(|c| {
        let v = c.get().wrapping_add(n);
        c.set(v);
        let _ = PEAK.try_with(|p| {
            if v > p.get() && v < usize::MAX / 2 {
                p.set(v)
            }
        });
    });
}

fn sub(n: usize) {
    // memory freed on this thread may have been allocated on another: saturate at 0
    let _ = LIVE.try_with(|c| c.set(c.get().saturating_sub(n)));
}

/// Run f and return (result, peak bytes allocated above the level at entry, on this thread).
pub fn measure<T>(f: impl FnOnce() -> T) -> (T, usize) {
    let base = LIVE.with(|c| c.get());
    PEAK.with(|p| p.set(base));
    let r = f();
    let peak = PEAK.with(|p| p.get());
    (r, peak.saturating_sub(base))
}
