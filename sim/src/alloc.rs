//! Counting global allocator: per-thread live and peak bytes, so that a run can bound what a
//! parser allocated. (Allocation *failure* is not simulated: it aborts the process in Rust.)

use std::{
    alloc::{GlobalAlloc, Layout, System},
    cell::Cell,
};

thread_local! {
    static LIVE: Cell<usize> = const { Cell::new(0) };
    static PEAK: Cell<usize> = const { Cell::new(0) };
}

pub struct Counting;

unsafe impl GlobalAlloc for Counting {
    unsafe fn alloc(&self, l: Layout) -> *mut u8 {
        let p = System.alloc(l);
        if !p.is_null() {
            add(l.size());
        }
        p
    }
    unsafe fn dealloc(&self, p: *mut u8, l: Layout) {
        System.dealloc(p, l);
        sub(l.size());
    }
    unsafe fn alloc_zeroed(&self, l: Layout) -> *mut u8 {
        let p = System.alloc_zeroed(l);
        if !p.is_null() {
            add(l.size());
        }
        p
    }
    unsafe fn realloc(&self, p: *mut u8, l: Layout, new: usize) -> *mut u8 {
        let q = System.realloc(p, l, new);
        if !q.is_null() {
            if new >= l.size() {
                add(new - l.size());
            } else {
                sub(l.size() - new);
            }
        }
        q
    }
}

fn add(n: usize) {
    let _ = LIVE.try_with(|c| {
        let v = c.get().wrapping_add(n);
        c.set(v);
        let _ = PEAK.try_with(|p| {
            if v > p.get() && v < usize::MAX / 2 {
                p.set(v)
            }
        });
    });
}

fn sub(n: usize) {
    // memory freed on this thread may have been allocated on another: saturate at 0
    let _ = LIVE.try_with(|c| c.set(c.get().saturating_sub(n)));
}

/// Run f and return (result, peak bytes allocated above the level at entry, on this thread).
pub fn measure<T>(f: impl FnOnce() -> T) -> (T, usize) {
    let base = LIVE.with(|c| c.get());
    PEAK.with(|p| p.set(base));
    let r = f();
    let peak = PEAK.with(|p| p.get());
    (r, peak.saturating_sub(base))
}
