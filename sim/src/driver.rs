//! Generic batch driver: seeded runs + systematic sweeps in parallel, deterministic merge,
//! shrinking, replay files, known-findings handling and evidence output.

use std::{
    collections::{BTreeMap, HashSet},
    path::{Path, PathBuf},
    sync::{
        atomic::{AtomicBool, AtomicU64, Ordering},
        Arc, Mutex,
    },
    time::Instant,
};

use rayon::prelude::*;
use serde::{de::DeserializeOwned, Deserialize, Serialize};
use serde_json::{json, Value};

use crate::{
    gen::GenStats,
    oracle::Violation,
    rng::{run_seed, Rng},
};

#[derive(Clone, Copy, Debug, PartialEq, Eq)]
pub enum Tier {
    Quick,
    Thorough,
}

impl Tier {
    pub fn name(self) -> &'static str {
        match self {
            Tier::Quick => "quick",
            Tier::Thorough => "thorough",
        }
    }
}

#[derive(Default, Debug, Clone)]
pub struct RunReport {
    pub violations: Vec<Violation>,
    pub probes: BTreeMap<&'static str, u64>,
    pub faults: BTreeMap<&'static str, u64>,
    pub signature: u64,
    pub nontrivial: bool,
    pub trace_hash: u64,
    pub sim_ms: u64,
}

impl RunReport {
    pub fn probe(&mut self, k: &'static str) {
        *self.probes.entry(k).or_insert(0) += 1;
    }
    pub fn probe_n(&mut self, k: &'static str, n: u64) {
        *self.probes.entry(k).or_insert(0) += n;
    }
    pub fn fault(&mut self, k: &'static str) {
        *self.faults.entry(k).or_insert(0) += 1;
    }
    pub fn merge_maps(&mut self, probes: &BTreeMap<&'static str, u64>, faults: &BTreeMap<&'static str, u64>) {
        for (k, v) in probes {
            *self.probes.entry(k).or_insert(0) += v;
        }
        for (k, v) in faults {
            *self.faults.entry(k).or_insert(0) += v;
        }
    }
}

pub trait Prop: Sync + Send {
    type Sc: Serialize + DeserializeOwned + Clone + Send + Sync + 'static;

    fn id(&self) -> &'static str;
    fn level(&self) -> &'static str;
    /// number of seeded runs for the tier
    fn runs(&self, tier: Tier) -> u64;
    /// number of systematic cases for the tier (enumerated completely when `sweep_exhaustive`)
    fn sweep_len(&self, _tier: Tier) -> u64 {
        0
    }
    fn sweep_case(&self, _tier: Tier, _idx: u64) -> Self::Sc {
        unreachable!()
    }
    fn sweep_note(&self, _tier: Tier) -> Value {
        Value::Null
    }
    fn generate(&self, rng: &mut Rng, tier: Tier, stats: &mut GenStats) -> Self::Sc;
    /// deterministic execution + oracle; only violations of clauses this property owns
    fn execute(&self, sc: &Self::Sc) -> RunReport;
    /// full event trace for the replay file
    fn trace(&self, sc: &Self::Sc) -> Value;
    /// smaller candidate scenarios, most aggressive first
    fn shrink(&self, sc: &Self::Sc) -> Vec<Self::Sc>;
    fn rule(&self) -> String;
    fn assumptions(&self) -> Vec<String>;
    fn components(&self) -> Value;
    /// probes / fault kinds that must be non-zero for the tier, else the harness is inadequate
    fn required(&self, tier: Tier) -> Vec<&'static str>;
    /// max worker threads (loopback world limits itself)
    fn max_workers(&self) -> usize {
        16
    }
    /// Small canonical scenarios that may be executed earlier in the same process. Used only when
    /// a failing scenario does not reproduce in a fresh process: the library then keeps state
    /// across connections (process-wide), and the replay file records which earlier activity
    /// the failure needs.
    fn preludes(&self, _sc: &Self::Sc) -> Vec<Self::Sc> {
        vec![]
    }
    /// Variants of a failing scenario to try when it does not reproduce in a fresh process because
    /// its failure in the batch depended on what other worker threads were doing at the time
    /// (e.g. `tracing` keeps a process-wide callsite-interest cache: while any thread has a
    /// subscriber, span fields are evaluated on all threads).
    fn repro_variants(&self, _sc: &Self::Sc) -> Vec<Self::Sc> {
        vec![]
    }
    /// does a known-findings `match` object apply to this minimised scenario?
    fn matches_finding(&self, _sc: &Self::Sc, _m: &Value) -> bool {
        true
    }
}

#[derive(Serialize, Deserialize, Clone, Debug)]
pub struct KnownFinding {
    pub property: String,
    pub status: String,
    #[serde(default)]
    pub clause: String,
    #[serde(default)]
    pub detail_contains: Vec<String>,
    #[serde(default, rename = "match")]
    pub matcher: Value,
    #[serde(default)]
    pub commit: String,
    pub what: String,
}

pub fn verif_root() -> PathBuf {
    if let Ok(p) = std::env::var("VERIF_ROOT") {
        return PathBuf::from(p);
    }
    // the binary lives in <root>/sim/target/release/
    let exe = std::env::current_exe().expect("current_exe");
    let mut p = exe.as_path();
    for _ in 0..4 {
        p = p.parent().unwrap_or(Path::new("/verif"));
    }
    if p.join("properties.jsonl").exists() {
        p.to_path_buf()
    } else {
        PathBuf::from("/verif")
    }
}

fn load_known(root: &Path) -> Vec<KnownFinding> {
    let p = root.join("known_findings.json");
    match std::fs::read_to_string(&p) {
        Ok(s) => serde_json::from_str::<Vec<KnownFinding>>(&s).unwrap_or_else(|e| {
            eprintln!("harness error: cannot parse {}: {}", p.display(), e);
            std::process::exit(2);
        }),
        Err(_) => vec![],
    }
}

#[derive(Default)]
struct Agg {
    evaluations: u64,
    probes: BTreeMap<&'static str, u64>,
    faults: BTreeMap<&'static str, u64>,
    sigs: HashSet<u64>,
    sim_ms: u64,
    rejected: u64,
    /// (index, is_sweep) of failing runs with the first violation's clause
    failing: Vec<(u64, bool, String)>,
    hash_xor: u64,
    hash_sum: u64,
}

impl Agg {
    fn add(&mut self, idx: u64, sweep: bool, r: &RunReport) {
        self.evaluations += 1;
        for (k, v) in &r.probes {
            *self.probes.entry(k).or_insert(0) += v;
        }
        for (k, v) in &r.faults {
            *self.faults.entry(k).or_insert(0) += v;
        }
        if r.nontrivial {
            let _ = self.sigs.insert(r.signature);
        }
        self.sim_ms += r.sim_ms;
        self.hash_xor ^= r.trace_hash.rotate_left((idx % 63) as u32);
        self.hash_sum = self.hash_sum.wrapping_add(r.trace_hash.wrapping_mul(idx | 1));
        if let Some(v) = r.violations.first() {
            if self.failing.len() < 64 {
                self.failing.push((idx, sweep, v.clause.clone()));
            }
        }
    }
    fn merge(mut self, o: Agg) -> Agg {
        self.evaluations += o.evaluations;
        for (k, v) in o.probes {
            *self.probes.entry(k).or_insert(0) += v;
        }
        for (k, v) in o.faults {
            *self.faults.entry(k).or_insert(0) += v;
        }
        self.sigs.extend(o.sigs);
        self.sim_ms += o.sim_ms;
        self.rejected += o.rejected;
        self.failing.extend(o.failing);
        self.hash_xor ^= o.hash_xor;
        self.hash_sum = self.hash_sum.wrapping_add(o.hash_sum);
        self
    }
}

/// a single run that takes longer than this (real time) is reported as a hang
pub const HANG_MS: u64 = 40_000;

pub struct Opts {
    pub tier: Tier,
    pub seed: u64,
    pub runs_override: Option<u64>,
    pub workers: Option<usize>,
    pub dump_hashes: Option<PathBuf>,
    pub no_evidence: bool,
}

pub fn scenario_for<P: Prop>(p: &P, opts: &Opts, idx: u64, sweep: bool, stats: &mut GenStats) -> P::Sc {
    if sweep {
        p.sweep_case(opts.tier, idx)
    } else {
        let mut rng = Rng::new(run_seed(opts.seed, idx));
        p.generate(&mut rng, opts.tier, stats)
    }
}

/// Execute a scenario outside the batch (shrinking, confirmation, samples) under the watchdog's
/// deadline. A scenario that does not return is itself a finding: it is written out as a `hang`
/// replay file and the process exits 1 (the stuck helper thread cannot be joined).
pub fn exec_deadline<P: Prop + 'static>(p: &'static P, sc: &P::Sc, seed: u64) -> RunReport {
    let (tx, rx) = std::sync::mpsc::channel();
    let sc2 = sc.clone();
    let _ = std::thread::spawn(move || {
        let r = p.execute(&sc2);
        let _ = tx.send(r);
    });
    match rx.recv_timeout(std::time::Duration::from_millis(HANG_MS)) {
        Ok(r) => r,
        Err(_) => post_hang(p, sc, seed),
    }
}

pub fn trace_deadline<P: Prop + 'static>(p: &'static P, sc: &P::Sc, seed: u64) -> Value {
    let (tx, rx) = std::sync::mpsc::channel();
    let sc2 = sc.clone();
    let _ = std::thread::spawn(move || {
        let r = p.trace(&sc2);
        let _ = tx.send(r);
    });
    match rx.recv_timeout(std::time::Duration::from_millis(HANG_MS)) {
        Ok(r) => r,
        Err(_) => post_hang(p, sc, seed),
    }
}

/// Generate the scenario for a run index on a helper thread under the hang deadline (generation
/// consults the library's decoder as the reference, so on a broken tree it can be what hangs).
/// On a timeout a `hang` replay file that names the run index is written and the process exits 1.
fn gen_deadline<P: Prop + 'static>(p: &'static P, opts: &Opts, idx: u64, sweep: bool, stats: &mut GenStats) -> P::Sc {
    let (tx, rx) = std::sync::mpsc::channel();
    let (seed, tier) = (opts.seed, opts.tier);
    let _ = std::thread::spawn(move || {
        let o = Opts { tier, seed, runs_override: None, workers: None, dump_hashes: None, no_evidence: true };
        let mut st = GenStats::default();
        let sc = scenario_for(p, &o, idx, sweep, &mut st);
        let _ = tx.send((sc, st));
    });
    match rx.recv_timeout(std::time::Duration::from_millis(HANG_MS)) {
        Ok((sc, st)) => {
            stats.rejected_by_reference += st.rejected_by_reference;
            sc
        },
        Err(_) => {
            let dir = verif_root().join("replays");
            let _ = std::fs::create_dir_all(&dir);
            let path = dir.join(format!("{}-{}-{}{}-hang.json", p.id(), seed, if sweep { "s" } else { "r" }, idx));
            let rf = ReplayFile {
                property: p.id().to_string(),
                seed,
                run_index: idx,
                from_sweep: sweep,
                clause: "hang".into(),
                detail: "generating the scenario (which consults the library's decoder as the reference) did not return within 40 s".into(),
                trace_hash: 0,
                original_size: 0,
                minimised_size: 0,
                shrink_executions: 0,
                scenario: Value::Null,
                trace: Value::Null,
                prelude: None,
                any_clause: false,
                regenerate: Some((tier.name().to_string(), idx, sweep)),
            };
            let _ = std::fs::write(&path, serde_json::to_string_pretty(&rf).unwrap());
            println!("violation: clause=hang run={}{} detail=generating the scenario did not return within 40 s", if sweep { "sweep#" } else { "seeded#" }, idx);
            println!("VIOLATION property={} replay={}", p.id(), path.display());
            std::process::exit(1)
        },
    }
}

fn post_hang<P: Prop + 'static>(p: &'static P, sc: &P::Sc, seed: u64) -> ! {
    let dir = verif_root().join("replays");
    let _ = std::fs::create_dir_all(&dir);
    let mut h = crate::rng::Fnv::default();
    h.write(serde_json::to_string(sc).unwrap_or_default().as_bytes());
    let path = dir.join(format!("{}-{}-x{:08x}-hang.json", p.id(), seed, h.finish() as u32));
    let rf = ReplayFile {
        property: p.id().to_string(),
        seed,
        run_index: 0,
        from_sweep: false,
        clause: "hang".into(),
        detail: "a scenario derived from a failing run (shrinking / confirmation) did not return within 40 s".into(),
        trace_hash: 0,
        original_size: 0,
        minimised_size: 0,
        shrink_executions: 0,
        scenario: serde_json::to_value(sc).unwrap(),
        trace: Value::Null,
        prelude: None,
        any_clause: false,
        regenerate: None,
    };
    let _ = std::fs::write(&path, serde_json::to_string_pretty(&rf).unwrap());
    println!("violation: clause=hang detail=a scenario derived from a failing run did not return within 40 s");
    println!("VIOLATION property={} replay={}", p.id(), path.display());
    std::process::exit(1)
}

/// Greedy shrinking: keep a candidate iff the same clause still fails.
pub fn minimise<P: Prop + 'static>(p: &'static P, sc: &P::Sc, clause: &str, budget: usize, seed: u64) -> (P::Sc, usize) {
    let mut cur = sc.clone();
    let mut execs = 0usize;
    let started = Instant::now();
    let size = |s: &P::Sc| serde_json::to_string(s).map(|x| x.len()).unwrap_or(usize::MAX);
    let mut cur_size = size(&cur);
    'outer: loop {
        let cands = p.shrink(&cur);
        for c in cands {
            if execs >= budget || started.elapsed().as_secs() > 90 {
                break 'outer;
            }
            let cs = size(&c);
            if cs >= cur_size {
                continue;
            }
            execs += 1;
            let r = exec_deadline(p, &c, seed);
            if r.violations.iter().any(|v| v.clause == clause) {
                cur = c;
                cur_size = cs;
                continue 'outer;
            }
        }
        break;
    }
    (cur, execs)
}

#[derive(Serialize, Deserialize)]
pub struct ReplayFile {
    pub property: String,
    pub seed: u64,
    pub run_index: u64,
    pub from_sweep: bool,
    pub clause: String,
    pub detail: String,
    pub trace_hash: u64,
    pub original_size: usize,
    pub minimised_size: usize,
    pub shrink_executions: usize,
    pub scenario: Value,
    pub trace: Value,
    /// scenario executed first in the same process (the failure depends on process-wide state)
    #[serde(default)]
    pub prelude: Option<Value>,
    /// the verdict depends on state the library keeps across connections, and with it the way
    /// the violation shows: any violation of the property counts as a reproduction
    #[serde(default)]
    pub any_clause: bool,
    /// set instead of `scenario` when generating the scenario itself does not return (the
    /// generator consults the library's decoder): (tier, index, from_sweep) to regenerate from
    #[serde(default)]
    pub regenerate: Option<(String, u64, bool)>,
}

pub fn replay<P: Prop + 'static>(p: &'static P, path: &Path) -> i32 {
    let s = match std::fs::read_to_string(path) {
        Ok(s) => s,
        Err(e) => {
            eprintln!("harness error: cannot read replay file {}: {}", path.display(), e);
            return 2;
        },
    };
    let rf: ReplayFile = match serde_json::from_str(&s) {
        Ok(r) => r,
        Err(e) => {
            eprintln!("harness error: bad replay file: {}", e);
            return 2;
        },
    };
    if let Some((tier, idx, sweep)) = rf.regenerate.clone() {
        // generating the scenario is what hangs: do that under the deadline
        let (tx, rx) = std::sync::mpsc::channel();
        let seed = rf.seed;
        let _ = std::thread::spawn(move || {
            let o = Opts {
                tier: if tier == "thorough" { Tier::Thorough } else { Tier::Quick },
                seed,
                runs_override: None,
                workers: None,
                dump_hashes: None,
                no_evidence: true,
            };
            let mut stats = GenStats::default();
            let sc = scenario_for(p, &o, idx, sweep, &mut stats);
            let _ = p.execute(&sc);
            let _ = tx.send(());
        });
        return match rx.recv_timeout(std::time::Duration::from_millis(HANG_MS)) {
            Ok(()) => {
                println!("replay: generating and executing the scenario returned: hang did NOT reproduce");
                0
            },
            Err(_) => {
                println!("replay: generating the scenario (which consults the library's decoder) has not returned after {} s: hang reproduced", HANG_MS / 1000);
                println!("VIOLATION property={} replay={}", p.id(), path.display());
                std::process::exit(1)
            },
        };
    }
    let sc: P::Sc = match serde_json::from_value(rf.scenario.clone()) {
        Ok(s) => s,
        Err(e) => {
            eprintln!("harness error: bad scenario in replay file: {}", e);
            return 2;
        },
    };
    if rf.clause == "hang" {
        // the scenario does not return: run it on a helper thread and give it the watchdog's time
        let (tx, rx) = std::sync::mpsc::channel();
        let sc2 = sc.clone();
        let pp: &'static P = p;
        let _ = std::thread::spawn(move || {
            let _ = pp.execute(&sc2);
            let _ = tx.send(());
        });
        return match rx.recv_timeout(std::time::Duration::from_millis(HANG_MS)) {
            Ok(()) => {
                println!("replay: the scenario returned: hang did NOT reproduce");
                0
            },
            Err(_) => {
                println!("replay: the scenario has not returned after {} s: hang reproduced", HANG_MS / 1000);
                println!("VIOLATION property={} replay={}", p.id(), path.display());
                std::process::exit(1)
            },
        };
    }
    if let Some(pre) = &rf.prelude {
        match serde_json::from_value::<P::Sc>(pre.clone()) {
            Ok(pre) => {
                let _ = p.execute(&pre);
                println!("replay: executed the recorded prelude scenario first (failure depends on process-wide state)");
            },
            Err(e) => {
                eprintln!("harness error: bad prelude in replay file: {}", e);
                return 2;
            },
        }
    }
    let r = p.execute(&sc);
    let same_clause = r.violations.iter().find(|v| v.clause == rf.clause).or_else(|| if rf.any_clause { r.violations.first() } else { None });
    match same_clause {
        Some(v) => {
            println!("replay: clause {} reproduced: {}", v.clause, v.detail);
            if r.trace_hash != rf.trace_hash {
                println!("replay: note: trace hash differs from the recorded one (code under test changed?) recorded={:016x} now={:016x}", rf.trace_hash, r.trace_hash);
            } else {
                println!("replay: trace identical to the recorded one ({:016x})", r.trace_hash);
            }
            println!("VIOLATION property={} replay={}", p.id(), path.display());
            1
        },
        None => {
            println!(
                "replay: clause {} did NOT reproduce (violations now: {:?})",
                rf.clause,
                r.violations.iter().map(|v| v.clause.clone()).collect::<Vec<_>>()
            );
            0
        },
    }
}

pub fn run_batch<P: Prop + 'static>(p: &'static P, opts: &Opts) -> i32 {
    let t0 = Instant::now();
    let root = verif_root();
    let n_runs = opts.runs_override.unwrap_or_else(|| p.runs(opts.tier));
    let n_sweep = if opts.runs_override.is_some() && std::env::var("VERIF_NO_SWEEP").is_ok() {
        0
    } else {
        p.sweep_len(opts.tier)
    };
    let workers = opts
        .workers
        .unwrap_or_else(|| std::thread::available_parallelism().map(|n| n.get()).unwrap_or(4))
        .min(p.max_workers())
        .max(1);
    println!(
        "[{}] tier={} seed={} seeded_runs={} sweep_cases={} workers={}",
        p.id(),
        opts.tier.name(),
        opts.seed,
        n_runs,
        n_sweep,
        workers
    );

    // watchdog: a run that exceeds the wall-clock bound is a hang
    let slots: Arc<Vec<(AtomicU64, AtomicU64)>> = Arc::new(
        (0..workers + 1)
            .map(|_| (AtomicU64::new(u64::MAX), AtomicU64::new(0)))
            .collect(),
    );
    let done = Arc::new(AtomicBool::new(false));
    let hang: Arc<Mutex<Option<u64>>> = Arc::new(Mutex::new(None));
    let wd = {
        let slots = slots.clone();
        let done = done.clone();
        let hang = hang.clone();
        let t0 = t0;
        std::thread::spawn(move || {
            while !done.load(Ordering::Relaxed) {
                std::thread::sleep(std::time::Duration::from_millis(500));
                let now = t0.elapsed().as_millis() as u64;
                for s in slots.iter() {
                    let tag = s.0.load(Ordering::Relaxed);
                    let st = s.1.load(Ordering::Relaxed);
                    if tag != u64::MAX && now.saturating_sub(st) > HANG_MS {
                        *hang.lock().unwrap() = Some(tag);
                        return;
                    }
                }
            }
        })
    };

    let pool = rayon::ThreadPoolBuilder::new()
        .num_threads(workers)
        .build()
        .expect("pool");

    let total = n_sweep + n_runs;
    let chunk = (total / (workers as u64 * 8)).clamp(1, 256);
    let n_chunks = (total + chunk - 1) / chunk;
    let hashes: Mutex<Vec<(u64, u64)>> = Mutex::new(Vec::new());
    // after this many failing runs the rest of the batch is skipped (a broken tree need not be
    // explored to the end; the evidence then reports fewer evaluations)
    let failures_seen = AtomicU64::new(0);
    let want_hashes = opts.dump_hashes.is_some();

    let replay_dir_early = root.join("replays");
    let _ = std::fs::create_dir_all(&replay_dir_early);
    let report_hang = |tag: u64| -> ! {
        let sweep = tag >> 62 & 1 == 1;
        let idx = tag & !(1 << 62);
        // regenerate the scenario for the replay file — under a deadline, because generation
        // consults the library's decoder and may be what hangs
        let (gtx, grx) = std::sync::mpsc::channel();
        let (gseed, gtier) = (opts.seed, opts.tier);
        let _ = std::thread::spawn(move || {
            let o = Opts { tier: gtier, seed: gseed, runs_override: None, workers: None, dump_hashes: None, no_evidence: true };
            let mut stats = GenStats::default();
            let sc = scenario_for(p, &o, idx, sweep, &mut stats);
            let _ = gtx.send(serde_json::to_value(&sc).unwrap());
        });
        let (scv, regen) = match grx.recv_timeout(std::time::Duration::from_secs(10)) {
            Ok(v) => (v, None),
            Err(_) => (Value::Null, Some((opts.tier.name().to_string(), idx, sweep))),
        };
        let path = replay_dir_early.join(format!("{}-{}-{}{}-hang.json", p.id(), opts.seed, if sweep { "s" } else { "r" }, idx));
        let rf = ReplayFile {
            property: p.id().to_string(),
            seed: opts.seed,
            run_index: idx,
            from_sweep: sweep,
            clause: "hang".into(),
            detail: "run exceeded the 40 s wall-clock watchdog (a run normally takes well under a second)".into(),
            trace_hash: 0,
            original_size: 0,
            minimised_size: 0,
            shrink_executions: 0,
            scenario: scv,
            trace: Value::Null,
            prelude: None,
            any_clause: false,
            regenerate: regen,
        };
        let _ = std::fs::write(&path, serde_json::to_string_pretty(&rf).unwrap());
        println!("violation: clause=hang run={}{} detail=the run did not return within 40 s", if sweep { "sweep#" } else { "seeded#" }, idx);
        println!("VIOLATION property={} replay={}", p.id(), path.display());
        std::process::exit(1)
    };
    let (fin_tx, fin_rx) = std::sync::mpsc::channel::<()>();
    let agg = std::thread::scope(|scope| {
        let worker = scope.spawn(|| {
            let a = pool.install(|| {
        (0..n_chunks)
            .into_par_iter()
            .map(|c| {
                let mut a = Agg::default();
                let mut stats = GenStats::default();
                let slot = rayon::current_thread_index().unwrap_or(workers).min(workers);
                let mut local_hashes = Vec::new();
                for g in c * chunk..((c + 1) * chunk).min(total) {
                    if failures_seen.load(Ordering::Relaxed) >= 24 {
                        break;
                    }
                    let (idx, sweep) = if g < n_sweep { (g, true) } else { (g - n_sweep, false) };
                    // tag: top bit = sweep
                    slots[slot].1.store(t0.elapsed().as_millis() as u64, Ordering::Relaxed);
                    slots[slot].0.store(idx | ((sweep as u64) << 62), Ordering::Relaxed);
                    let sc = scenario_for(p, opts, idx, sweep, &mut stats);
                    let r = p.execute(&sc);
                    slots[slot].0.store(u64::MAX, Ordering::Relaxed);
                    if want_hashes {
                        local_hashes.push((g, r.trace_hash));
                    }
                    if !r.violations.is_empty() {
                        let _ = failures_seen.fetch_add(1, Ordering::Relaxed);
                    }
                    a.add(idx, sweep, &r);
                }
                a.rejected = stats.rejected_by_reference;
                if want_hashes {
                    hashes.lock().unwrap().extend(local_hashes);
                }
                a
            })
            .reduce(Agg::default, Agg::merge)
            });
            let _ = fin_tx.send(());
            a
        });
        loop {
            if fin_rx.recv_timeout(std::time::Duration::from_millis(300)).is_ok() {
                break;
            }
            if let Some(tag) = *hang.lock().unwrap() {
                // a worker is stuck inside the library: report and leave (the stuck thread
                // cannot be joined)
                report_hang(tag);
            }
        }
        worker.join().expect("worker")
    });
    done.store(true, Ordering::Relaxed);
    let _ = wd.join();

    if let Some(path) = &opts.dump_hashes {
        let mut h = hashes.into_inner().unwrap();
        h.sort();
        let mut s = String::new();
        for (g, x) in h {
            s.push_str(&format!("{} {:016x}\n", g, x));
        }
        std::fs::write(path, s).expect("write hashes");
    }

    // ---- violations ----
    let known = load_known(&root);
    let mut failing = agg.failing.clone();
    failing.sort();
    let mut violations_unlisted = 0u64;
    let mut known_hit: Vec<String> = Vec::new();
    let mut handled_clauses: Vec<String> = Vec::new();
    let mut violation_lines: Vec<String> = Vec::new();
    let mut harness_error = false;
    let replay_dir = root.join("replays");
    let _ = std::fs::create_dir_all(&replay_dir);
    for (idx, sweep, clause) in &failing {
        if handled_clauses.iter().any(|c| c == clause) {
            continue;
        }
        if handled_clauses.len() >= 6 {
            break;
        }
        handled_clauses.push(clause.clone());
        let mut stats = GenStats::default();
        let sc = gen_deadline(p, opts, *idx, *sweep, &mut stats);
        let orig_size = serde_json::to_string(&sc).map(|s| s.len()).unwrap_or(0);
        let (mut min_sc, execs) = minimise(p, &sc, clause, 3000, opts.seed);
        let mut r1 = exec_deadline(p, &min_sc, opts.seed);
        let r2 = exec_deadline(p, &min_sc, opts.seed);
        // A scenario whose verdict flips between executions in this process depends on state the
        // library keeps outside the connection (process-wide caches, pools): minimisation was
        // then steered by ambient state. Fall back to the scenario as generated; whether and how
        // it reproduces on its own is settled by the fresh-process confirmation below.
        let mut ambient = r1.trace_hash != r2.trace_hash;
        if !r1.violations.iter().any(|v| &v.clause == clause) {
            ambient = true;
            min_sc = sc.clone();
            r1 = exec_deadline(p, &min_sc, opts.seed);
        }
        let viol = match r1.violations.iter().find(|v| &v.clause == clause).cloned() {
            Some(v) => v,
            None => crate::oracle::Violation {
                clause: clause.clone(),
                detail: "observed in the batch; the verdict of this scenario depends on state the library keeps across connections in the process".to_string(),
            },
        };
        if ambient {
            println!("note: clause {} at run {}: the outcome of the scenario varies between executions in one process (library state outside the connection); confirming in fresh processes", clause, idx);
        }
        // known finding?
        let k = known.iter().find(|k| {
            k.property == p.id()
                && k.status == "open"
                && k.clause == *clause
                && k.detail_contains.iter().all(|s| viol.detail.contains(s))
                && p.matches_finding(&min_sc, &k.matcher)
        });
        if let Some(k) = k {
            let line = format!("KNOWN-FINDING: property={} {}", p.id(), k.what);
            if !known_hit.contains(&line) {
                known_hit.push(line);
            }
            continue;
        }
        let min_size = serde_json::to_string(&min_sc).map(|s| s.len()).unwrap_or(0);
        let mut rf = ReplayFile {
            property: p.id().to_string(),
            seed: opts.seed,
            run_index: *idx,
            from_sweep: *sweep,
            clause: clause.clone(),
            detail: viol.detail.clone(),
            trace_hash: r1.trace_hash,
            original_size: orig_size,
            minimised_size: min_size,
            shrink_executions: execs,
            scenario: serde_json::to_value(&min_sc).unwrap(),
            trace: trace_deadline(p, &min_sc, opts.seed),
            prelude: None,
            any_clause: ambient,
            regenerate: None,
        };
        let fname = format!(
            "{}-{}-{}{}-{}.json",
            p.id(),
            opts.seed,
            if *sweep { "s" } else { "r" },
            idx,
            clause.replace(['.', '/'], "_")
        );
        let path = replay_dir.join(fname);
        // confirm in a fresh process; if that fails, the failure may need earlier activity in
        // the same process (library state shared between connections): try the preludes
        // (scenario, prelude) candidates: as found; variants of it; then with each prelude
        let mut candidates: Vec<(Value, Option<Value>)> = vec![(serde_json::to_value(&min_sc).unwrap(), None)];
        for var in p.repro_variants(&min_sc) {
            candidates.push((serde_json::to_value(&var).unwrap(), None));
        }
        for pre in p.preludes(&min_sc) {
            candidates.push((serde_json::to_value(&min_sc).unwrap(), Some(serde_json::to_value(&pre).unwrap())));
        }
        let mut confirmed = false;
        for (k, (scv, pre)) in candidates.into_iter().enumerate() {
            rf.scenario = scv;
            rf.prelude = pre;
            if k > 0 {
                // the trace shown must belong to the scenario recorded
                if let Ok(v) = serde_json::from_value::<P::Sc>(rf.scenario.clone()) {
                    rf.trace = trace_deadline(p, &v, opts.seed);
                    rf.trace_hash = exec_deadline(p, &v, opts.seed).trace_hash;
                }
            }
            std::fs::write(&path, serde_json::to_string_pretty(&rf).unwrap()).expect("write replay");
            confirmed = match std::process::Command::new(std::env::current_exe().unwrap())
                .arg(p.id())
                .arg("--replay")
                .arg(&path)
                .env("VERIF_ROOT", &root)
                .output()
            {
                Ok(o) => o.status.code() == Some(1),
                Err(_) => false,
            };
            if confirmed {
                if rf.prelude.is_some() {
                    println!("note: the violation below reproduces in a fresh process only after the recorded prelude scenario: the library keeps process-wide state across connections");
                } else if k > 0 {
                    println!("note: the violation below was found in a run whose outcome depended on other worker threads; the replay file records the variant of the scenario that reproduces on its own");
                }
                break;
            }
        }
        if !confirmed {
            eprintln!("harness error: replay file {} did not reproduce in a fresh process", path.display());
            harness_error = true;
            continue;
        }
        violations_unlisted += 1;
        println!("violation: clause={} run={}{} detail={}", clause, if *sweep { "sweep#" } else { "seeded#" }, idx, viol.detail);
        println!("           scenario shrunk {} -> {} bytes of JSON in {} executions", orig_size, min_size, execs);
        violation_lines.push(format!("VIOLATION property={} replay={}", p.id(), path.display()));
    }

    // ---- dead probes ----
    let mut dead: Vec<&'static str> = Vec::new();
    if opts.runs_override.is_none() {
        for k in p.required(opts.tier) {
            let n = agg.probes.get(k).copied().unwrap_or(0) + agg.faults.get(k).copied().unwrap_or(0);
            if n == 0 {
                dead.push(k);
            }
        }
    }

    let wall = t0.elapsed().as_secs_f64();
    // ---- evidence ----
    if !opts.no_evidence {
        let mut samples: Vec<Value> = Vec::new();
        let mut stats = GenStats::default();
        let mut want_plain = true;
        let mut want_faulty = true;
        for i in 0..n_runs.min(400) {
            let sc = gen_deadline(p, opts, i, false, &mut stats);
            let r = exec_deadline(p, &sc, opts.seed);
            let js = serde_json::to_value(&sc).unwrap();
            let small = serde_json::to_string(&js).map(|s| s.len() < 6000).unwrap_or(false);
            if !small {
                continue;
            }
            if r.nontrivial && want_faulty {
                samples.push(json!({"kind": "seeded run with faults / split frames", "run_index": i, "scenario": js, "faults_fired": r.faults, "probes": r.probes}));
                want_faulty = false;
            } else if !r.nontrivial && want_plain {
                samples.push(json!({"kind": "seeded fault-free run", "run_index": i, "scenario": js}));
                want_plain = false;
            }
            if !want_plain && !want_faulty {
                break;
            }
        }
        if n_sweep > 0 {
            let sc = p.sweep_case(opts.tier, n_sweep / 2);
            samples.push(json!({"kind": "systematic sweep case", "sweep_index": n_sweep / 2, "scenario": serde_json::to_value(&sc).unwrap()}));
        }
        if samples.is_empty() && n_runs > 0 {
            let sc = gen_deadline(p, opts, 0, false, &mut stats);
            samples.push(json!({"kind": "seeded run 0 (truncated JSON)", "scenario": truncate_json(serde_json::to_value(&sc).unwrap())}));
        }
        let ev = json!({
            "property_id": p.id(),
            "tier": opts.tier.name(),
            "seed": opts.seed,
            "level": p.level(),
            "wall_s": wall,
            "violations": violations_unlisted,
            "assumptions": p.assumptions(),
            "coverage": {
                "evaluations": agg.evaluations,
                "seeded_runs": n_runs,
                "sweep_cases": n_sweep,
                "sweep": p.sweep_note(opts.tier),
                "exhaustive": false,
                "distinct_nontrivial": agg.sigs.len(),
                "rule": p.rule(),
                "samples": samples,
                "runs_per_hour": if wall > 0.0 { (agg.evaluations as f64 / wall * 3600.0) as u64 } else { 0 },
                "seeds": {"base": opts.seed, "first_run_seed": run_seed(opts.seed, 0), "last_run_seed": run_seed(opts.seed, n_runs.saturating_sub(1)), "derivation": "run i uses xoshiro256** seeded with splitmix64-mix(VERIF_SEED, i)"},
                "sim_time_covered_s": agg.sim_ms as f64 / 1000.0,
                "fault_counts": agg.faults,
                "probes": agg.probes,
                "dead_required_probes": dead,
                "rejected_by_reference": agg.rejected,
                "batch_trace_digest": format!("{:016x}{:016x}", agg.hash_xor, agg.hash_sum),
                "components": p.components(),
                "known_findings_hit": known_hit,
                "workers": workers,
            },
        });
        let dir = root.join("evidence");
        let _ = std::fs::create_dir_all(&dir);
        let path = dir.join(format!("{}.json", p.id()));
        std::fs::write(&path, serde_json::to_string_pretty(&ev).unwrap()).expect("write evidence");
    }

    for l in &known_hit {
        println!("{}", l);
    }
    for l in &violation_lines {
        println!("{}", l);
    }
    println!(
        "[{}] evaluations={} distinct_nontrivial={} wall={:.1}s digest={:016x}{:016x} violations={} known={}",
        p.id(),
        agg.evaluations,
        agg.sigs.len(),
        wall,
        agg.hash_xor,
        agg.hash_sum,
        violations_unlisted,
        known_hit.len()
    );
    if violations_unlisted > 0 {
        return 1;
    }
    if harness_error {
        return 2;
    }
    if !dead.is_empty() {
        eprintln!("harness error: required probes never fired: {:?}", dead);
        return 2;
    }
    0
}

fn truncate_json(v: Value) -> Value {
    match v {
        Value::String(s) if s.len() > 400 => Value::String(format!("{}… ({} chars)", &s[..400], s.len())),
        Value::Array(a) if a.len() > 40 => {
            let n = a.len();
            let mut b: Vec<Value> = a.into_iter().take(40).map(truncate_json).collect();
            b.push(Value::String(format!("… ({} items)", n)));
            Value::Array(b)
        },
        Value::Array(a) => Value::Array(a.into_iter().map(truncate_json).collect()),
        Value::Object(o) => Value::Object(o.into_iter().map(|(k, v)| (k, truncate_json(v))).collect()),
        other => other,
    }
}
