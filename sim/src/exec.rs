//! Executors for the stream world: drive the real blocking / tokio `Framed` over `SimStream`
//! according to a `StreamScenario`. No PRNG, no wall clock.

use std::{
    future::Future,
    panic::{catch_unwind, AssertUnwindSafe},
    pin::Pin,
    sync::{Arc, Mutex},
    task::Poll,
    time::Duration,
};

use insim::{net::Codec, Packet};

use crate::{
    link::{AppRes, Ev, LinkState, SimStream},
    model::{enter_guard, leave_guard, ref_decode_packet, take_panic_msg},
    scenario::{AppOp, Imp, StreamScenario},
};

#[derive(Clone, Debug)]
pub struct StreamOutcome {
    pub trace: Vec<Ev>,
    /// bytes the peer received
    pub out: Vec<u8>,
    /// inbound bytes handed to the connection
    pub delivered: usize,
    pub sim_ms: u64,
    pub link_calls: usize,
}

pub const POLL_BUDGET: u32 = 50_000;
pub const HANDSHAKE_TIMEOUT_MS: u64 = 30_000;

fn packet_for(sc: &StreamScenario, frame: &[u8]) -> Option<Packet> {
    ref_decode_packet(sc.mode, frame).1
}

pub fn run(sc: &StreamScenario) -> StreamOutcome {
    crate::tracer::with_tracing(sc.trace, || match sc.imp {
        Imp::Blocking => run_blocking(sc),
        Imp::Tokio => run_tokio(sc),
    })
}

fn finish(link: Arc<Mutex<LinkState>>) -> StreamOutcome {
    let st = link.lock().unwrap_or_else(|e| e.into_inner());
    StreamOutcome {
        trace: st.trace.clone(),
        out: st.out.clone(),
        delivered: st.pos,
        sim_ms: st.now_ms,
        link_calls: st.calls,
    }
}

fn res_of<T>(r: &insim::Result<T>, ok: impl FnOnce(&T) -> AppRes) -> AppRes {
    match r {
        Ok(v) => ok(v),
        Err(e) => AppRes::from_err(e),
    }
}

fn is_terminal(r: &AppRes) -> bool {
    matches!(r, AppRes::Disconnected)
}

pub fn run_blocking(sc: &StreamScenario) -> StreamOutcome {
    use insim::net::blocking_impl::Framed;
    enter_guard();
    let link = Arc::new(Mutex::new(LinkState::new(
        false,
        sc.inbound.clone(),
        &sc.reads,
        &sc.writes,
    )));
    let mut framed = Framed::new(
        Box::new(SimStream(link.clone())),
        Codec::new(sc.mode.to_mode()),
    );
    if sc.verify_version || sc.explicit_gate {
        framed.verify_version(sc.verify_version);
    }
    for g in &sc.gate_calls {
        framed.verify_version(*g);
    }

    let push = |e: Ev| link.lock().unwrap_or_else(|e| e.into_inner()).trace.push(e);
    let exhausted = || link.lock().unwrap_or_else(|e| e.into_inner()).exhausted;

    'ops: for (op, a) in sc.ops.iter().enumerate() {
        match a {
            AppOp::Read | AppOp::ReadCancel { .. } => {
                push(Ev::OpStart { op });
                match catch_unwind(AssertUnwindSafe(|| framed.read())) {
                    Ok(r) => {
                        push(Ev::OpDone {
                            op,
                            res: res_of(&r, |p| AppRes::Pkt(format!("{:?}", p))),
                        });
                    },
                    Err(_) => {
                        push(Ev::Panic {
                            op,
                            msg: take_panic_msg(),
                        });
                        break 'ops;
                    },
                }
            },
            AppOp::Drain { max } => {
                for _ in 0..*max {
                    push(Ev::OpStart { op });
                    match catch_unwind(AssertUnwindSafe(|| framed.read())) {
                        Ok(r) => {
                            let res = res_of(&r, |p| AppRes::Pkt(format!("{:?}", p)));
                            let term = is_terminal(&res);
                            push(Ev::OpDone { op, res });
                            if term {
                                break;
                            }
                        },
                        Err(_) => {
                            push(Ev::Panic {
                                op,
                                msg: take_panic_msg(),
                            });
                            break 'ops;
                        },
                    }
                    if exhausted() {
                        break;
                    }
                }
            },
            AppOp::Write(frame) | AppOp::Handshake(frame) | AppOp::WriteCancel { frame, .. } => {
                let Some(p) = packet_for(sc, frame) else {
                    continue;
                };
                push(Ev::OpStart { op });
                let r = catch_unwind(AssertUnwindSafe(|| match (a, p) {
                    (AppOp::Handshake(_), Packet::Isi(isi)) => framed.handshake(isi),
                    (_, p) => framed.write(p),
                }));
                match r {
                    Ok(r) => push(Ev::OpDone {
                        op,
                        res: res_of(&r, |_| AppRes::Done),
                    }),
                    Err(_) => {
                        push(Ev::Panic {
                            op,
                            msg: take_panic_msg(),
                        });
                        break 'ops;
                    },
                }
            },
            AppOp::Advance(_) => {},
        }
        if exhausted() {
            push(Ev::Budget { op });
            break;
        }
    }
    drop(framed);
    leave_guard();
    finish(link)
}

enum Polled<T> {
    Ready(T),
    Pending,
    Panicked,
}

async fn poll_once<F: Future + ?Sized>(fut: &mut Pin<Box<F>>) -> Polled<F::Output> {
    std::future::poll_fn(|cx| {
        let r = catch_unwind(AssertUnwindSafe(|| fut.as_mut().poll(cx)));
        Poll::Ready(match r {
            Ok(Poll::Ready(v)) => Polled::Ready(v),
            Ok(Poll::Pending) => Polled::Pending,
            Err(_) => Polled::Panicked,
        })
    })
    .await
}

pub fn run_tokio(sc: &StreamScenario) -> StreamOutcome {
    use insim::net::tokio_impl::Framed;
    enter_guard();
    let rt = tokio::runtime::Builder::new_current_thread()
        .enable_time()
        .start_paused(true)
        .build()
        .expect("runtime");

    let link = Arc::new(Mutex::new({
        let mut l = LinkState::new(true, sc.inbound.clone(), &sc.reads, &sc.writes);
        l.flushes = sc.flushes.iter().cloned().collect();
        l.buffered = sc.buffered;
        l
    }));
    let l2 = link.clone();

    rt.block_on(async move {
        let link = l2;
        let mut framed = Framed::new(
            Box::new(SimStream(link.clone())),
            Codec::new(sc.mode.to_mode()),
        );
        if sc.verify_version || sc.explicit_gate {
            framed.verify_version(sc.verify_version);
        }
        for g in &sc.gate_calls {
            framed.verify_version(*g);
        }

        let push = |e: Ev| link.lock().unwrap_or_else(|e| e.into_inner()).trace.push(e);
        let exhausted = || link.lock().unwrap_or_else(|e| e.into_inner()).exhausted;

        // apply a clock advance requested by a Stall event (or an Advance op)
        async fn advance(link: &Arc<Mutex<LinkState>>, extra: u64) {
            let ms = {
                let mut st = link.lock().unwrap_or_else(|e| e.into_inner());
                let ms = st.want_advance + extra;
                st.want_advance = 0;
                ms
            };
            if ms > 0 {
                tokio::time::advance(Duration::from_millis(ms)).await;
                let mut st = link.lock().unwrap_or_else(|e| e.into_inner());
                st.now_ms += ms;
                let now = st.now_ms;
                st.trace.push(Ev::Clock { ms, now });
            }
        }

        // Drive one read; `cancel_after` = Some(k): drop it if still pending after k polls.
        // Returns (terminal?, panicked?)
        macro_rules! drive_read {
            ($op:expr, $cancel_after:expr) => {{
                let op: usize = $op;
                let cancel_after: Option<u32> = $cancel_after;
                push(Ev::OpStart { op });
                let mut fut: Pin<Box<dyn Future<Output = insim::Result<Packet>> + '_>> =
                    Box::pin(framed.read());
                let mut polls = 0u32;
                let mut outcome = (false, false);
                loop {
                    if let Some(k) = cancel_after {
                        if polls >= k {
                            drop(fut);
                            push(Ev::OpCancelled { op, polls });
                            break;
                        }
                    }
                    if polls >= POLL_BUDGET {
                        drop(fut);
                        push(Ev::Budget { op });
                        outcome = (true, false);
                        break;
                    }
                    polls += 1;
                    match poll_once(&mut fut).await {
                        Polled::Ready(r) => {
                            let res = res_of(&r, |p| AppRes::Pkt(format!("{:?}", p)));
                            outcome.0 = is_terminal(&res);
                            push(Ev::OpDone { op, res });
                            break;
                        },
                        Polled::Pending => {
                            advance(&link, 0).await;
                        },
                        Polled::Panicked => {
                            push(Ev::Panic {
                                op,
                                msg: take_panic_msg(),
                            });
                            outcome = (true, true);
                            break;
                        },
                    }
                }
                outcome
            }};
        }

        'ops: for (op, a) in sc.ops.iter().enumerate() {
            match a {
                AppOp::Read => {
                    let (_, panicked) = drive_read!(op, None);
                    if panicked {
                        break 'ops;
                    }
                },
                AppOp::ReadCancel { polls } => {
                    let (_, panicked) = drive_read!(op, Some(*polls));
                    if panicked {
                        break 'ops;
                    }
                },
                AppOp::Drain { max } => {
                    for _ in 0..*max {
                        let (term, panicked) = drive_read!(op, None);
                        if panicked {
                            break 'ops;
                        }
                        if term || exhausted() {
                            break;
                        }
                    }
                },
                AppOp::Write(frame) | AppOp::Handshake(frame) | AppOp::WriteCancel { frame, .. } => {
                    let Some(p) = packet_for(sc, frame) else {
                        continue;
                    };
                    let cancel_after: Option<u32> = match a {
                        AppOp::WriteCancel { polls, .. } => Some(*polls),
                        _ => None,
                    };
                    push(Ev::OpStart { op });
                    let mut fut: Pin<Box<dyn Future<Output = insim::Result<()>> + '_>> =
                        match (a, p) {
                            (AppOp::Handshake(_), Packet::Isi(isi)) => Box::pin(
                                framed.handshake(isi, Duration::from_millis(HANDSHAKE_TIMEOUT_MS)),
                            ),
                            (_, p) => Box::pin(framed.write(p)),
                        };
                    let mut polls = 0u32;
                    loop {
                        if let Some(k) = cancel_after {
                            if polls >= k {
                                drop(fut);
                                push(Ev::OpCancelled { op, polls });
                                break;
                            }
                        }
                        if polls >= POLL_BUDGET {
                            push(Ev::Budget { op });
                            break;
                        }
                        polls += 1;
                        match poll_once(&mut fut).await {
                            Polled::Ready(r) => {
                                push(Ev::OpDone {
                                    op,
                                    res: res_of(&r, |_| AppRes::Done),
                                });
                                break;
                            },
                            Polled::Pending => {
                                advance(&link, 0).await;
                            },
                            Polled::Panicked => {
                                push(Ev::Panic {
                                    op,
                                    msg: take_panic_msg(),
                                });
                                drop(fut);
                                break 'ops;
                            },
                        }
                    }
                },
                AppOp::Advance(ms) => {
                    advance(&link, *ms).await;
                },
            }
            if exhausted() {
                push(Ev::Budget { op });
                break;
            }
        }
        drop(framed);
    });
    drop(rt);
    leave_guard();
    finish(link)
}
