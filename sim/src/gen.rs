//! Workload generation for the stream world: frame corpus discovered from the library's own
//! decoder, frame lists, link scripts, application scripts. Everything is drawn from the one
//! `Rng` passed in.

use std::sync::OnceLock;

use crate::{
    model::{ref_decode, ref_decode_packet, ref_encode, RefRes},
    rng::Rng,
    scenario::{ErrKind, FlushEv, ReadEv, SizeMode, WriteEv},
};

/// (type byte, frame length) pairs for which an all-zero body decodes to a packet.
#[derive(Debug, Default)]
pub struct Corpus {
    /// per known type: ascending list of sizes that decode with a zero body
    pub ok_sizes: Vec<(u8, Vec<usize>)>,
    pub unknown_types: Vec<u8>,
    /// kinds whose all-zero frame is refused: a frame with one valid code word in it that decodes
    pub templates: Vec<(u8, Vec<u8>)>,
}

fn build_corpus(mode: SizeMode) -> Corpus {
    let mut c = Corpus::default();
    for t in 0u16..=255 {
        let t = t as u8;
        let mut sizes = Vec::new();
        let cands: Vec<usize> = match mode {
            SizeMode::Compressed => (1..=255).map(|k| k * 4).collect(),
            SizeMode::Uncompressed => (4..=255).collect(),
        };
        for n in cands {
            let mut f = vec![0u8; n];
            f[0] = mode.size_byte(n);
            f[1] = t;
            if ref_decode(mode, &f).is_pkt() {
                sizes.push(n);
            }
        }
        if sizes.is_empty() {
            c.unknown_types.push(t);
            // a kind whose all-zero frame is refused may only want one valid code somewhere
            // (a track, a vehicle): look for a template with a dictionary word at some offset
            if t <= 70 || t >= 250 {
                'search: for n in (8..=64usize).step_by(4) {
                    for off in 2..n - 3 {
                        for word in [&b"BL1\0"[..], b"XFG\0"] {
                            let mut f = vec![0u8; n];
                            f[0] = mode.size_byte(n);
                            f[1] = t;
                            f[off..off + 4].copy_from_slice(word);
                            if ref_decode(mode, &f).is_pkt() {
                                c.templates.push((t, f));
                                break 'search;
                            }
                        }
                    }
                }
            }
        } else {
            c.ok_sizes.push((t, sizes));
        }
    }
    c
}

pub fn corpus(mode: SizeMode) -> &'static Corpus {
    static C: OnceLock<Corpus> = OnceLock::new();
    static U: OnceLock<Corpus> = OnceLock::new();
    match mode {
        SizeMode::Compressed => C.get_or_init(|| build_corpus(SizeMode::Compressed)),
        SizeMode::Uncompressed => U.get_or_init(|| build_corpus(SizeMode::Uncompressed)),
    }
}

pub fn keepalive(mode: SizeMode) -> Vec<u8> {
    mode.pong().to_vec()
}

pub fn tiny(mode: SizeMode, reqi: u8, subt: u8) -> Vec<u8> {
    vec![mode.size_byte(4), 3, reqi, subt]
}

pub fn ver_frame(mode: SizeMode, reqi: u8, insimver: u8, rng: &mut Rng) -> Vec<u8> {
    let mut f = vec![mode.size_byte(20), 2, reqi, 0];
    let versions: [&[u8]; 4] = [b"0.7A", b"0.6V", b"0.7E3", b"0.5Z28"];
    let v = rng.pick(&versions);
    let mut vb = v.to_vec();
    if rng.chance(1, 6) {
        // free-form version text: digits, dots, letters, multi-byte characters
        vb.clear();
        for _ in 0..rng.small(5) {
            let a: &[u8] = *rng.pick(&TEXT_ATOMS[24..]);
            vb.extend_from_slice(a);
        }
        vb.truncate(8);
    }
    vb.resize(8, 0);
    f.extend_from_slice(&vb);
    let products: [&[u8]; 4] = [b"S3", b"DEMO", b"S2", b"S1"];
    let mut pb = rng.pick(&products).to_vec();
    if rng.chance(1, 6) {
        // a product name that fills the field (no terminator on the wire), or nearly
        pb = (0..rng.usize(5, 6)).map(|_| *rng.pick(b"ABCDEFS3\t 9")).collect();
    }
    pb.resize(6, 0);
    f.extend_from_slice(&pb);
    f.push(insimver);
    // Spare: zero from LFS, but nothing stops a relay or a newer version from using it
    f.push(if rng.chance(1, 4) { rng.byte() } else { 0 });
    if rng.chance(1, 8) {
        f[3] = rng.byte();
    }
    f
}

#[derive(Clone, Copy, Debug, PartialEq, Eq)]
pub enum FrameClass {
    /// reference decode gives a packet
    Pkt,
    /// reference decode gives a decode error
    DecodeErr,
}

#[derive(Clone, Debug)]
pub struct FrameMix {
    pub keepalive: u64,
    pub tiny_other: u64,
    pub ver: u64,
    pub known: u64,
    pub unknown_type: u64,
    pub random_body: u64,
    pub big: u64,
    /// insimver values for VER frames: true = mostly 9, some others
    pub ver_mostly_9: bool,
}

impl FrameMix {
    pub fn default_mix() -> Self {
        FrameMix {
            keepalive: 10,
            tiny_other: 10,
            ver: 5,
            known: 50,
            unknown_type: 5,
            random_body: 15,
            big: 5,
            ver_mostly_9: true,
        }
    }
    /// swarm: zero some of the weights at random
    pub fn swarm(rng: &mut Rng) -> Self {
        let mut m = Self::default_mix();
        let z = |rng: &mut Rng, w: &mut u64| {
            if rng.chance(1, 4) {
                *w = 0
            } else if rng.chance(1, 4) {
                *w *= 4
            }
        };
        z(rng, &mut m.keepalive);
        z(rng, &mut m.tiny_other);
        z(rng, &mut m.ver);
        z(rng, &mut m.unknown_type);
        z(rng, &mut m.random_body);
        z(rng, &mut m.big);
        if m.known == 0 {
            m.known = 10;
        }
        m
    }
}

#[derive(Default, Debug, Clone)]
pub struct GenStats {
    pub rejected_by_reference: u64,
}

fn mix_total(mix: &FrameMix) -> u64 {
    mix.keepalive + mix.tiny_other + mix.ver + mix.known + mix.unknown_type + mix.random_body + mix.big
}

/// One inbound frame, whatever the reference call makes of it.
pub fn gen_frame_raw(rng: &mut Rng, mode: SizeMode, mix: &FrameMix) -> Vec<u8> {
    let total = mix_total(mix);
    let mut x = rng.below(total.max(1));
    let mut pick = |w: u64| {
        if x < w {
            true
        } else {
            x -= w;
            false
        }
    };
    let c = corpus(mode);
    let f: Vec<u8> = if pick(mix.keepalive) {
        keepalive(mode)
    } else if pick(mix.tiny_other) {
        let reqi = match rng.below(4) {
            0 => 0,
            1 => 1,
            2 => 255,
            _ => rng.byte(),
        };
        let subt = if rng.chance(1, 8) {
            rng.byte()
        } else {
            rng.below(30) as u8
        };
        tiny(mode, reqi, subt)
    } else if pick(mix.ver) {
        let v = if mix.ver_mostly_9 && rng.chance(2, 3) {
            9
        } else {
            *rng.pick(&[0u8, 1, 8, 9, 10, 255, 7, 90])
        };
        let reqi = rng.byte();
        ver_frame(mode, reqi, v, rng)
    } else if pick(mix.known) {
        if !c.templates.is_empty() && rng.chance(1, 12) {
            // kinds that need a valid code somewhere: the template, sometimes with one byte changed
            let mut f = rng.pick(&c.templates).1.clone();
            if rng.chance(1, 2) {
                let i = rng.usize(2, f.len() - 1);
                f[i] = rng.byte();
            }
            return f;
        }
        let (t, sizes) = rng.pick(&c.ok_sizes);
        let n = if rng.chance(3, 4) {
            sizes[0]
        } else {
            *rng.pick(sizes)
        };
        let mut f = fill_body(rng, n);
        f[0] = mode.size_byte(n);
        f[1] = *t;
        f
    } else if pick(mix.unknown_type) {
        if c.unknown_types.is_empty() {
            return keepalive(mode);
        }
        let t = *rng.pick(&c.unknown_types);
        let n = rand_len(rng, mode, 64);
        let mut f = rng.bytes(n);
        f[0] = mode.size_byte(n);
        f[1] = t;
        f
    } else if pick(mix.random_body) {
        let (t, sizes) = rng.pick(&c.ok_sizes);
        let n = sizes[0];
        let mut f = rng.bytes(n);
        f[0] = mode.size_byte(n);
        f[1] = *t;
        f
    } else {
        // big frames: the largest sizes a type accepts, or maximum-length frames
        let (t, sizes) = rng.pick(&c.ok_sizes);
        let n = if rng.chance(1, 2) {
            *sizes.last().unwrap()
        } else {
            mode.max_len() - (mode.max_len() % 4)
        };
        let n = n.min(mode.max_len());
        let mut f = fill_body(rng, n);
        f[0] = mode.size_byte(n);
        f[1] = *t;
        f
    };
    // Non-canonical lengths: a frame may announce more than its packet needs (IS_NLP pads to
    // a multiple of 4; relays and newer LFS versions append fields) or, where the length byte
    // counts single bytes, stop short of a trailing spare byte. Whether such a frame is a
    // packet is the reference call's business, as for every other frame.
    let mut f = f;
    if f.len() >= 4 && f.len() <= 24 && matches!(f[1], 2 | 3) && rng.chance(1, 10) {
        let n = f.len();
        let m = match mode {
            SizeMode::Compressed => n + 4 * rng.usize(1, 3),
            SizeMode::Uncompressed => {
                if n > 4 && rng.chance(1, 4) {
                    n - 1
                } else {
                    n + rng.usize(1, 9)
                }
            },
        };
        let nonzero_pad = rng.chance(1, 2);
        while f.len() < m {
            f.push(if nonzero_pad { *rng.pick(&[9u8, 1, 3, 255, 8]) } else { 0 });
        }
        f.truncate(m);
        f[0] = mode.size_byte(m);
    }
    f
}

/// One inbound frame whose reference decode neither panics nor is odd.
pub fn gen_frame(rng: &mut Rng, mode: SizeMode, mix: &FrameMix, stats: &mut GenStats) -> Vec<u8> {
    for _attempt in 0..64 {
        let f = gen_frame_raw(rng, mode, mix);
        match ref_decode(mode, &f) {
            // "Odd" (the reference call answered a well-formed frame with something other than a
            // packet or a decode error) stays in the workload: the model does not know what the
            // packet is, but it does know that a frame of possible length is not a transport
            // error, and the oracle holds the connection to that
            RefRes::Pkt { .. } | RefRes::Err(_) | RefRes::Odd(_) => return f,
            RefRes::Panic(_) => {
                stats.rejected_by_reference += 1;
            },
        }
    }
    keepalive(mode)
}

/// An IS_ISI frame (what `handshake()` sends) that the codec accepts, for handshakes repeated in
/// the middle of a session (to change flags or the interval).
pub fn isi_frame(rng: &mut Rng, mode: SizeMode) -> Option<Vec<u8>> {
    let mut f = vec![0u8; 44];
    f[0] = mode.size_byte(44);
    f[1] = 1;
    f[2] = rng.byte();
    f[8] = 9;
    f[28] = b'x';
    if ref_decode(mode, &f).is_pkt() {
        Some(f)
    } else {
        None
    }
}

/// Receive buffer capacity of both connection types (insim::DEFAULT_BUFFER_CAPACITY).
pub const RX_CAP: usize = 6120;

/// Boundary session: a frame boundary exactly at (or one frame short of / beyond) a multiple of
/// the receive buffer's capacity, so that spare capacity reaches exactly zero; then a few more
/// frames. Returns the frames and the stream offset aimed at.
pub fn boundary_frames(rng: &mut Rng, mode: SizeMode, mix: &FrameMix, frames: &[Vec<u8>], ka_pad: bool, stats: &mut GenStats) -> (Vec<Vec<u8>>, usize) {
    let cap = RX_CAP * rng.usize(1, 2);
    let mut total = 0usize;
    let mut fs: Vec<Vec<u8>> = Vec::new();
    for f in frames.iter() {
        if total + f.len() + 4 > cap {
            break;
        }
        total += f.len();
        fs.push(f.clone());
    }
    // pad with 4-byte TINYs (and, uncompressed only, one odd-sized unknown frame) up to cap + d
    let d: isize = *rng.pick(&[-4isize, 0, 0, 0, 4]);
    let goal = (cap as isize + d) as usize;
    if mode == SizeMode::Uncompressed && (goal - total) % 4 != 0 && goal - total >= 5 {
        let n = 4 + (goal - total) % 4;
        let mut odd = vec![0xEEu8; n];
        odd[0] = n as u8;
        odd[1] = 200;
        total += n;
        fs.push(odd);
    }
    while total + 4 <= goal {
        if ka_pad && rng.chance(1, 2) {
            fs.push(keepalive(mode));
        } else {
            fs.push(tiny(mode, rng.byte() | 1, 3));
        }
        total += 4;
    }
    // and carry on after the boundary
    for _ in 0..rng.usize(1, 6) {
        fs.push(gen_frame(rng, mode, mix, stats));
    }
    (fs, goal)
}

/// Quiet link around the boundary: from shortly before `edge` on every frame arrives as its own
/// segment, and after some of them (always after the one that ends at `edge`) the link says
/// nothing for a while — more than the 90 s read timeout on the async connection, one socket
/// read timeout on the blocking one — before it carries on.
pub fn quiet_edge_reads(rng: &mut Rng, blocking: bool, frames: &[Vec<u8>], edge: usize) -> Vec<ReadEv> {
    let mut evs = Vec::new();
    let mut off = 0usize;
    let from = edge.saturating_sub(4 * rng.usize(1, 40));
    let mut bulk = 0usize;
    for f in frames {
        let end = off + f.len();
        if end <= from {
            bulk += f.len();
        } else {
            if bulk > 0 {
                evs.push(ReadEv::Data(bulk));
                bulk = 0;
            }
            evs.push(ReadEv::Data(f.len()));
            if end == edge || rng.chance(1, 12) {
                if blocking {
                    evs.push(ReadEv::Err(if rng.chance(1, 2) { ErrKind::WouldBlock } else { ErrKind::TimedOut }));
                } else {
                    evs.push(ReadEv::Stall(rng.range(90_000, 200_000)));
                    evs.push(ReadEv::Pending);
                }
            } else if !blocking && rng.chance(1, 3) {
                evs.push(ReadEv::Pending);
            }
        }
        off = end;
    }
    if bulk > 0 {
        evs.push(ReadEv::Data(bulk));
    }
    evs.push(ReadEv::Eof);
    evs
}

fn rand_len(rng: &mut Rng, mode: SizeMode, cap: usize) -> usize {
    match mode {
        SizeMode::Compressed => 4 * rng.usize(1, (cap / 4).max(1)),
        SizeMode::Uncompressed => rng.usize(4, cap.max(4).min(255)),
    }
}

/// byte strings that text / version fields treat specially: escapes, codepage markers,
/// multi-byte UTF-8, version syntax
pub const TEXT_ATOMS: [&[u8]; 33] = [
    b"\xC2\xB2", b"\xC2\xBD", b"\xD9\xA3",
    b"XFG\x00", b"FZ5\x00", b"BF1\x00", b"UF1\x00", b"BL1\x00", b"AS1R",
    b"^", b"^^", b"^J", b"^L", b"^G", b"^C", b"^E", b"^T", b"^B", b"^H", b"^S", b"^K", b"^8", b"^0", b"^v",
    b"a", b"1", b"0.7", b".", b"\xC3\xA9", b"\xE2\x82\xAC", b"\xF0\x9F\x98\x80", b"\x80", b"\xFF",
];

fn fill_body(rng: &mut Rng, n: usize) -> Vec<u8> {
    match rng.below(5) {
        4 => {
            // text-like: atoms back to back, NUL runs in between
            let mut v = Vec::with_capacity(n + 4);
            while v.len() < n {
                if rng.chance(1, 6) {
                    for _ in 0..rng.small(6) {
                        v.push(0);
                    }
                } else {
                    let a: &[u8] = *rng.pick(&TEXT_ATOMS[..]);
                    v.extend_from_slice(a);
                }
            }
            v.truncate(n);
            v
        },
        0 => vec![0u8; n],
        1 => {
            // enumerant-sized values: most enum-typed fields have fewer than a dozen variants
            let top = *rng.pick(&[4u64, 8, 12, 32]);
            (0..n).map(|_| rng.below(top) as u8).collect()
        },
        2 => {
            let mut v = vec![0u8; n];
            for _ in 0..rng.usize(1, 6) {
                let i = rng.usize(0, n - 1);
                v[i] = rng.byte();
            }
            v
        },
        _ => (0..n)
            .map(|_| if rng.chance(1, 2) { rng.below(3) as u8 } else { rng.byte() })
            .collect(),
    }
}

/// A packet (as its canonical encoded frame) that the encoder accepts, never a keep-alive.
pub fn gen_out_frame(rng: &mut Rng, mode: SizeMode, stats: &mut GenStats) -> Vec<u8> {
    let mix = FrameMix {
        keepalive: 0,
        tiny_other: 15,
        ver: 2,
        known: 70,
        unknown_type: 0,
        random_body: 5,
        big: 8,
        ver_mostly_9: true,
    };
    for _ in 0..200 {
        let f = gen_frame(rng, mode, &mix, stats);
        if let (RefRes::Pkt { keepalive, .. }, Some(p)) = ref_decode_packet(mode, &f) {
            if keepalive {
                continue;
            }
            match ref_encode(mode, &p) {
                Ok(b) => {
                    // the canonical frame must decode again (it is what the executor decodes)
                    if let (RefRes::Pkt { keepalive: false, .. }, Some(p2)) = ref_decode_packet(mode, &b) {
                        if ref_encode(mode, &p2).as_deref() == Ok(&b[..]) {
                            return b;
                        }
                    }
                    // an encoder whose output is not one frame by its own size byte must not be
                    // able to talk its packets out of the workload: keep the packet, as the
                    // frame it was decoded from (the oracles check the length on their own)
                    if b.is_empty() || mode.announced(b[0]) != b.len() {
                        return f;
                    }
                    stats.rejected_by_reference += 1;
                },
                Err(_) => stats.rejected_by_reference += 1,
            }
        }
    }
    tiny(mode, 1, 3)
}

#[derive(Clone, Debug)]
pub struct LinkCfg {
    /// probability (per mille) of each fault between two segments
    pub err_pm: u64,
    pub pending_pm: u64,
    pub stall_pm: u64,
    pub long_stall_pm: u64,
    pub err_kinds: Vec<ErrKind>,
    /// segmentation style
    pub style: SegStyle,
    /// None = Eof only after all data; Some(pm) = chance to end the stream early
    pub early_eof_pm: u64,
}

#[derive(Clone, Copy, Debug, PartialEq, Eq)]
pub enum SegStyle {
    Bytewise,
    FrameAligned,
    SmallRandom,
    LargeRandom,
    HeaderSplits,
    WholeStream,
    Mixed,
}

pub const ALL_STYLES: [SegStyle; 7] = [
    SegStyle::Bytewise,
    SegStyle::FrameAligned,
    SegStyle::SmallRandom,
    SegStyle::LargeRandom,
    SegStyle::HeaderSplits,
    SegStyle::WholeStream,
    SegStyle::Mixed,
];

impl LinkCfg {
    pub fn fault_free(rng: &mut Rng) -> Self {
        LinkCfg {
            err_pm: 0,
            pending_pm: 0,
            stall_pm: 0,
            long_stall_pm: 0,
            err_kinds: vec![],
            style: *rng.pick(&ALL_STYLES),
            early_eof_pm: 0,
        }
    }
    pub fn swarm(rng: &mut Rng) -> Self {
        let pm = |rng: &mut Rng, on: u64, hi: u64| {
            if rng.chance(on, 100) {
                rng.range(1, hi)
            } else {
                0
            }
        };
        let mut kinds = Vec::new();
        for k in [ErrKind::Interrupted, ErrKind::WouldBlock, ErrKind::TimedOut] {
            if rng.chance(1, 2) {
                kinds.push(k);
            }
        }
        LinkCfg {
            err_pm: if kinds.is_empty() { 0 } else { pm(rng, 60, 150) },
            pending_pm: pm(rng, 50, 300),
            stall_pm: pm(rng, 30, 100),
            long_stall_pm: pm(rng, 15, 30),
            err_kinds: kinds,
            style: *rng.pick(&ALL_STYLES),
            early_eof_pm: if rng.chance(1, 5) { 300 } else { 0 },
        }
    }
}

/// Cut `stream` (whose frame boundaries are `ends`) into Data segments + faults.
pub fn gen_reads(rng: &mut Rng, stream_len: usize, ends: &[usize], cfg: &LinkCfg) -> Vec<ReadEv> {
    let mut evs = Vec::new();
    let mut pos = 0usize;
    let mut fi = 0usize; // index of first frame end > pos
    let early_eof_at = if cfg.early_eof_pm > 0 && rng.chance(cfg.early_eof_pm, 1000) && stream_len > 0 {
        Some(if rng.chance(1, 2) && !ends.is_empty() {
            // at a frame boundary
            *rng.pick(ends)
        } else {
            rng.usize(0, stream_len)
        })
    } else {
        None
    };
    let mut style = cfg.style;
    while pos < stream_len {
        if let Some(e) = early_eof_at {
            if pos >= e {
                evs.push(ReadEv::Eof);
                return evs;
            }
        }
        // faults before this segment
        if cfg.err_pm > 0 && rng.chance(cfg.err_pm, 1000) {
            evs.push(ReadEv::Err(*rng.pick(&cfg.err_kinds)));
        }
        if cfg.pending_pm > 0 && rng.chance(cfg.pending_pm, 1000) {
            for _ in 0..rng.small(4) {
                evs.push(ReadEv::Pending);
            }
        }
        if cfg.stall_pm > 0 && rng.chance(cfg.stall_pm, 1000) {
            evs.push(ReadEv::Stall(rng.range(1, 89_999)));
        }
        if cfg.long_stall_pm > 0 && rng.chance(cfg.long_stall_pm, 1000) {
            evs.push(ReadEv::Stall(rng.range(90_000, 200_000)));
            // the poll that the expired timer causes still finds nothing to read
            if rng.chance(3, 4) {
                evs.push(ReadEv::Pending);
            }
        }
        while fi < ends.len() && ends[fi] <= pos {
            fi += 1;
        }
        let next_end = if fi < ends.len() { ends[fi] } else { stream_len };
        let frame_start = if fi == 0 { 0 } else { ends[fi - 1] };
        if cfg.style == SegStyle::Mixed && rng.chance(1, 8) {
            style = *rng.pick(&ALL_STYLES[..6]);
        }
        let mut n = match style {
            SegStyle::Bytewise => 1,
            SegStyle::FrameAligned => {
                // one or several whole frames
                let k = rng.small(6) as usize;
                let j = (fi + k - 1).min(ends.len().saturating_sub(1));
                if ends.is_empty() {
                    stream_len - pos
                } else {
                    ends[j].max(pos + 1) - pos
                }
            },
            SegStyle::SmallRandom => rng.usize(1, 9),
            SegStyle::LargeRandom => rng.usize(1, 3000),
            SegStyle::HeaderSplits => {
                // stop 1..3 bytes into the next frame, or finish the current one
                if pos == frame_start {
                    rng.usize(1, 3)
                } else {
                    let into_next = rng.usize(0, 3);
                    next_end - pos + into_next
                }
            },
            SegStyle::WholeStream => stream_len - pos,
            SegStyle::Mixed => rng.usize(1, 40),
        };
        n = n.max(1).min(stream_len - pos);
        if let Some(e) = early_eof_at {
            if pos + n > e {
                n = e - pos;
                if n == 0 {
                    evs.push(ReadEv::Eof);
                    return evs;
                }
            }
        }
        evs.push(ReadEv::Data(n));
        pos += n;
    }
    if let Some(e) = early_eof_at {
        if pos >= e {
            evs.push(ReadEv::Eof);
            return evs;
        }
    }
    // trailing faults before the natural end of stream
    if cfg.err_pm > 0 && rng.chance(cfg.err_pm, 1000) {
        evs.push(ReadEv::Err(*rng.pick(&cfg.err_kinds)));
    }
    if cfg.pending_pm > 0 && rng.chance(cfg.pending_pm, 1000) {
        evs.push(ReadEv::Pending);
    }
    evs
}

#[derive(Clone, Debug)]
pub struct WriteCfg {
    pub short_pm: u64,
    pub pending_pm: u64,
    /// the write half stalls for a while of simulated time (async only)
    pub stall_pm: u64,
}

impl WriteCfg {
    pub fn healthy() -> Self {
        WriteCfg {
            short_pm: 0,
            pending_pm: 0,
            stall_pm: 0,
        }
    }
    pub fn swarm(rng: &mut Rng) -> Self {
        WriteCfg {
            short_pm: if rng.chance(3, 4) { rng.range(50, 900) } else { 0 },
            pending_pm: if rng.chance(1, 2) { rng.range(50, 500) } else { 0 },
            stall_pm: if rng.chance(1, 4) { rng.range(20, 300) } else { 0 },
        }
    }
}

/// A pool of `n` write-half events.
pub fn gen_writes(rng: &mut Rng, n: usize, cfg: &WriteCfg) -> Vec<WriteEv> {
    let mut evs = Vec::new();
    for _ in 0..n {
        if cfg.pending_pm > 0 && rng.chance(cfg.pending_pm, 1000) {
            for _ in 0..rng.small(3) {
                evs.push(WriteEv::Pending);
            }
        }
        if cfg.stall_pm > 0 && rng.chance(cfg.stall_pm, 1000) {
            // a peer that stops reading for a while: from a blink to well over any grace period
            evs.push(WriteEv::Stall(match rng.below(4) {
                0 => rng.range(1, 500),
                1 => rng.range(500, 9_000),
                2 => rng.range(9_000, 29_000),
                _ => rng.range(29_000, 200_000),
            }));
        }
        if cfg.short_pm > 0 && rng.chance(cfg.short_pm, 1000) {
            match rng.below(5) {
                0 => evs.push(WriteEv::Accept(1)),
                1 => evs.push(WriteEv::Accept(rng.usize(1, 4))),
                2 => evs.push(WriteEv::Accept(rng.usize(1, 40))),
                3 => evs.push(WriteEv::AllBut(rng.usize(1, 3))),
                _ => evs.push(WriteEv::Accept(rng.usize(1, 1019))),
            };
        } else {
            evs.push(WriteEv::Accept(usize::MAX >> 1));
        }
    }
    evs
}

/// Session length classes: mostly short, sometimes beyond one or three receive buffers.
pub fn session_bytes_target(rng: &mut Rng) -> usize {
    match rng.below(20) {
        0 => rng.usize(6_200, 13_000),
        1 => rng.usize(18_400, 24_000),
        2..=5 => rng.usize(400, 4000),
        _ => rng.usize(4, 400),
    }
}

pub fn gen_frames_to_target(
    rng: &mut Rng,
    mode: SizeMode,
    mix: &FrameMix,
    target_bytes: usize,
    max_frames: usize,
    stats: &mut GenStats,
) -> Vec<Vec<u8>> {
    let mut frames = Vec::new();
    let mut total = 0;
    while total < target_bytes && frames.len() < max_frames {
        let f = gen_frame(rng, mode, mix, stats);
        total += f.len();
        frames.push(f);
    }
    if frames.is_empty() {
        frames.push(gen_frame(rng, mode, mix, stats));
    }
    frames
}

pub fn concat(frames: &[Vec<u8>]) -> (Vec<u8>, Vec<usize>) {
    let mut s = Vec::new();
    let mut ends = Vec::new();
    for f in frames {
        s.extend_from_slice(f);
        ends.push(s.len());
    }
    (s, ends)
}

pub fn pick_mode(rng: &mut Rng) -> SizeMode {
    if rng.chance(1, 2) {
        SizeMode::Compressed
    } else {
        SizeMode::Uncompressed
    }
}

/// A pool of flush events: mostly ready, sometimes Pending (several times) or a short stall.
pub fn gen_flushes(rng: &mut Rng, n: usize, pending_pm: u64) -> Vec<FlushEv> {
    let mut v = Vec::new();
    for _ in 0..n {
        if pending_pm > 0 && rng.chance(pending_pm, 1000) {
            for _ in 0..rng.small(3) {
                v.push(FlushEv::Pending);
            }
            if rng.chance(1, 8) {
                v.push(FlushEv::Stall(rng.range(1, 2000)));
            }
        }
        v.push(FlushEv::Ok);
    }
    v
}

/// A frame that decodes to a packet which the encoder refuses (write-side assertions such as
/// HCP's h_mass <= 200): handing it to write() must fail cleanly and leave nothing behind.
pub fn gen_unencodable_frame(rng: &mut Rng, mode: SizeMode) -> Option<Vec<u8>> {
    let c = corpus(mode);
    for attempt in 0..200 {
        let want: u8 = *rng.pick(&[56u8, 65, 66, 67]);
        let (t, sizes) = if attempt < 150 {
            match c.ok_sizes.iter().find(|(t, _)| *t == want) {
                Some(x) => x,
                None => continue,
            }
        } else {
            rng.pick(&c.ok_sizes)
        };
        let n = sizes[0];
        let mut f: Vec<u8> = (0..n).map(|_| if rng.chance(1, 3) { rng.byte() } else { 0 }).collect();
        f[0] = mode.size_byte(n);
        f[1] = *t;
        if let (RefRes::Pkt { keepalive: false, .. }, Some(p)) = ref_decode_packet(mode, &f) {
            if let Err(e) = ref_encode(mode, &p) {
                if !e.starts_with("panic") {
                    return Some(f);
                }
            }
        }
    }
    None
}
