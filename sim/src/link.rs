//! The simulated link: a scripted transport that implements Read/Write and
//! AsyncRead/AsyncWrite from the same script, and records everything that happens
//! on it (and everything the application observes) into one totally ordered trace.

use std::{
    collections::VecDeque,
    io,
    pin::Pin,
    sync::{Arc, Mutex},
    task::{Context, Poll},
};

use serde::{Deserialize, Serialize};
use tokio::io::{AsyncRead, AsyncWrite, ReadBuf};

use crate::scenario::{ErrKind, FlushEv, ReadEv, WriteEv};

/// Result of an application-visible operation, abstracted to what the properties talk about.
#[derive(Serialize, Deserialize, Clone, Debug, PartialEq, Eq)]
pub enum AppRes {
    /// a packet, by Debug rendering
    Pkt(String),
    /// write / handshake success
    Done,
    /// decode error for a frame
    Decode(String),
    IncompatibleVersion(u8),
    Io { kind: String, msg: String },
    Timeout,
    Disconnected,
    Other(String),
}

impl AppRes {
    pub fn from_err(e: &insim::Error) -> AppRes {
        match e {
            insim::Error::Disconnected => AppRes::Disconnected,
            insim::Error::IncompatibleVersion(v) => AppRes::IncompatibleVersion(*v),
            insim::Error::IO { kind, msg } => AppRes::Io {
                kind: format!("{:?}", kind),
                msg: msg.clone(),
            },
            insim::Error::Timeout(_) => AppRes::Timeout,
            insim::Error::BinRw(s) => AppRes::Decode(s.clone()),
            other => AppRes::Other(format!("{:?}", other)),
        }
    }
    pub fn class(&self) -> &'static str {
        match self {
            AppRes::Pkt(_) => "pkt",
            AppRes::Done => "done",
            AppRes::Decode(_) => "decode",
            AppRes::IncompatibleVersion(_) => "badver",
            AppRes::Io { .. } => "io",
            AppRes::Timeout => "timeout",
            AppRes::Disconnected => "disc",
            AppRes::Other(_) => "other",
        }
    }
}

#[derive(Serialize, Deserialize, Clone, Debug, PartialEq, Eq)]
pub enum Ev {
    /// read half called with `off` bytes of space; `got` bytes handed over
    RData { off: usize, got: usize },
    RPending { off: usize },
    RErr { off: usize, kind: ErrKind },
    REof { off: usize },
    /// write half called with `off` bytes; `took` accepted
    WData { off: usize, took: usize },
    WPending { off: usize },
    WErr { off: usize, kind: ErrKind },
    /// n more bytes reached the peer (immediately after WData on an unbuffered link; on a
    /// successful flush on a buffered one)
    Wire { n: usize },
    FlushPending,
    Flush,
    Shutdown,
    /// simulated clock advanced by ms; now is the new value
    Clock { ms: u64, now: u64 },
    OpStart { op: usize },
    OpDone { op: usize, res: AppRes },
    /// a read future dropped after `polls` polls
    OpCancelled { op: usize, polls: u32 },
    Panic { op: usize, msg: String },
    /// the per-run event/poll budget ran out inside this op
    Budget { op: usize },
}

#[derive(Debug)]
pub struct LinkState {
    pub is_async: bool,
    pub inbound: Vec<u8>,
    /// next inbound byte to hand out
    pub pos: usize,
    /// bytes left in the segment currently available
    pub seg: usize,
    pub eof: bool,
    pub reads: VecDeque<ReadEv>,
    pub writes: VecDeque<WriteEv>,
    pub flushes: VecDeque<FlushEv>,
    pub buffered: bool,
    /// accepted by the write half but not yet handed to the peer (buffered link only)
    pub staged: Vec<u8>,
    /// everything the peer has received
    pub out: Vec<u8>,
    pub trace: Vec<Ev>,
    /// clock advance requested by a Stall, applied by the executor after the poll
    pub want_advance: u64,
    pub now_ms: u64,
    pub calls: usize,
    pub budget: usize,
    pub exhausted: bool,
}

pub const CALL_BUDGET: usize = 60_000;

impl LinkState {
    pub fn new(is_async: bool, inbound: Vec<u8>, reads: &[ReadEv], writes: &[WriteEv]) -> Self {
        LinkState {
            is_async,
            inbound,
            pos: 0,
            seg: 0,
            eof: false,
            reads: reads.iter().cloned().collect(),
            writes: writes.iter().cloned().collect(),
            flushes: VecDeque::new(),
            buffered: false,
            staged: Vec::new(),
            out: Vec::new(),
            trace: Vec::new(),
            want_advance: 0,
            now_ms: 0,
            calls: 0,
            budget: CALL_BUDGET,
            exhausted: false,
        }
    }

    fn budget_check(&mut self) -> io::Result<()> {
        self.calls += 1;
        if self.calls > self.budget {
            self.exhausted = true;
            return Err(io::Error::new(io::ErrorKind::Other, "SIM-BUDGET-EXHAUSTED"));
        }
        Ok(())
    }

    /// One call of the read half. `None` = Pending.
    pub fn do_read(&mut self, buf: &mut [u8]) -> Option<io::Result<usize>> {
        if let Err(e) = self.budget_check() {
            return Some(Err(e));
        }
        let off = buf.len();
        loop {
            if self.seg > 0 {
                let n = self.seg.min(off).min(self.inbound.len() - self.pos);
                buf[..n].copy_from_slice(&self.inbound[self.pos..self.pos + n]);
                self.pos += n;
                self.seg -= n;
                self.trace.push(Ev::RData { off, got: n });
                return Some(Ok(n));
            }
            if self.eof {
                self.trace.push(Ev::REof { off });
                return Some(Ok(0));
            }
            match self.reads.pop_front() {
                Some(ReadEv::Data(n)) => {
                    self.seg = n.min(self.inbound.len() - self.pos);
                },
                Some(ReadEv::Pending) => {
                    if self.is_async {
                        self.trace.push(Ev::RPending { off });
                        return None;
                    }
                },
                Some(ReadEv::Stall(ms)) => {
                    if self.is_async {
                        self.want_advance += ms;
                        self.trace.push(Ev::RPending { off });
                        return None;
                    }
                },
                Some(ReadEv::Err(kind)) => {
                    self.trace.push(Ev::RErr { off, kind });
                    return Some(Err(io::Error::new(kind.to_io(), "injected")));
                },
                Some(ReadEv::Eof) => {
                    self.eof = true;
                },
                None => {
                    if self.pos < self.inbound.len() {
                        self.seg = self.inbound.len() - self.pos;
                    } else {
                        self.eof = true;
                    }
                },
            }
        }
    }

    fn accept(&mut self, off: usize, bytes: &[u8]) {
        let n = bytes.len();
        if self.buffered {
            self.staged.extend_from_slice(bytes);
            self.trace.push(Ev::WData { off, took: n });
        } else {
            self.out.extend_from_slice(bytes);
            self.trace.push(Ev::WData { off, took: n });
            self.trace.push(Ev::Wire { n });
        }
    }

    /// One flush of the write half. `None` = Pending.
    pub fn do_flush(&mut self) -> Option<io::Result<()>> {
        if let Err(e) = self.budget_check() {
            return Some(Err(e));
        }
        loop {
            match self.flushes.pop_front() {
                Some(FlushEv::Pending) => {
                    if self.is_async {
                        self.trace.push(Ev::FlushPending);
                        return None;
                    }
                },
                Some(FlushEv::Stall(ms)) => {
                    if self.is_async {
                        self.want_advance += ms;
                        self.trace.push(Ev::FlushPending);
                        return None;
                    }
                },
                Some(FlushEv::Ok) | None => {
                    if !self.staged.is_empty() {
                        let n = self.staged.len();
                        let st = std::mem::take(&mut self.staged);
                        self.out.extend_from_slice(&st);
                        self.trace.push(Ev::Wire { n });
                    }
                    self.trace.push(Ev::Flush);
                    return Some(Ok(()));
                },
            }
        }
    }

    /// One call of the write half. `None` = Pending.
    pub fn do_write(&mut self, buf: &[u8]) -> Option<io::Result<usize>> {
        if let Err(e) = self.budget_check() {
            return Some(Err(e));
        }
        let off = buf.len();
        loop {
            match self.writes.pop_front() {
                Some(WriteEv::Accept(k)) => {
                    let n = k.max(1).min(off);
                    self.accept(off, &buf[..n]);
                    return Some(Ok(n));
                },
                Some(WriteEv::AllBut(k)) => {
                    let n = off.saturating_sub(k).max(1).min(off);
                    self.accept(off, &buf[..n]);
                    return Some(Ok(n));
                },
                Some(WriteEv::Pending) => {
                    if self.is_async {
                        self.trace.push(Ev::WPending { off });
                        return None;
                    }
                },
                Some(WriteEv::Stall(ms)) => {
                    if self.is_async {
                        self.want_advance += ms;
                        self.trace.push(Ev::WPending { off });
                        return None;
                    }
                },
                Some(WriteEv::Err(kind)) => {
                    self.trace.push(Ev::WErr { off, kind });
                    return Some(Err(io::Error::new(kind.to_io(), "injected")));
                },
                Some(WriteEv::Zero) => {
                    // recorded like an injected error: the caller is expected to turn it into one
                    self.trace.push(Ev::WErr { off, kind: ErrKind::WriteZero });
                    return Some(Ok(0));
                },
                None => {
                    self.accept(off, buf);
                    return Some(Ok(off));
                },
            }
        }
    }
}

#[derive(Clone)]
pub struct SimStream(pub Arc<Mutex<LinkState>>);

impl std::fmt::Debug for SimStream {
    fn fmt(&self, f: &mut std::fmt::Formatter<'_>) -> std::fmt::Result {
        f.write_str("SimStream")
    }
}

impl io::Read for SimStream {
    fn read(&mut self, buf: &mut [u8]) -> io::Result<usize> {
        let mut st = self.0.lock().unwrap();
        match st.do_read(buf) {
            Some(r) => r,
            None => unreachable!("blocking link never answers Pending"),
        }
    }
}

impl io::Write for SimStream {
    fn write(&mut self, buf: &[u8]) -> io::Result<usize> {
        let mut st = self.0.lock().unwrap();
        match st.do_write(buf) {
            Some(r) => r,
            None => unreachable!("blocking link never answers Pending"),
        }
    }
    fn flush(&mut self) -> io::Result<()> {
        match self.0.lock().unwrap().do_flush() {
            Some(r) => r,
            None => unreachable!("blocking link never answers Pending"),
        }
    }
}

impl AsyncRead for SimStream {
    fn poll_read(
        self: Pin<&mut Self>,
        cx: &mut Context<'_>,
        buf: &mut ReadBuf<'_>,
    ) -> Poll<io::Result<()>> {
        let mut st = self.0.lock().unwrap();
        let slice = buf.initialize_unfilled();
        match st.do_read(slice) {
            Some(Ok(n)) => {
                buf.advance(n);
                Poll::Ready(Ok(()))
            },
            Some(Err(e)) => Poll::Ready(Err(e)),
            None => {
                cx.waker().wake_by_ref();
                Poll::Pending
            },
        }
    }
}

impl AsyncWrite for SimStream {
    fn poll_write(
        self: Pin<&mut Self>,
        cx: &mut Context<'_>,
        buf: &[u8],
    ) -> Poll<io::Result<usize>> {
        let mut st = self.0.lock().unwrap();
        match st.do_write(buf) {
            Some(r) => Poll::Ready(r),
            None => {
                cx.waker().wake_by_ref();
                Poll::Pending
            },
        }
    }

    fn poll_flush(self: Pin<&mut Self>, cx: &mut Context<'_>) -> Poll<io::Result<()>> {
        match self.0.lock().unwrap().do_flush() {
            Some(r) => Poll::Ready(r),
            None => {
                cx.waker().wake_by_ref();
                Poll::Pending
            },
        }
    }

    fn poll_shutdown(self: Pin<&mut Self>, _cx: &mut Context<'_>) -> Poll<io::Result<()>> {
        self.0.lock().unwrap().trace.push(Ev::Shutdown);
        Poll::Ready(Ok(()))
    }
}
