//! insim_sim — deterministic simulation checks for insim.rs. See /verif/DESIGN.md.

mod alloc;
mod driver;
mod exec;
mod gen;
mod link;
mod model;
mod oracle;
mod props;
mod rng;
mod scenario;
mod streamprop;
mod tracer;

use std::path::PathBuf;

use driver::{Opts, Prop, Tier};

#[global_allocator]
static GLOBAL: alloc::Counting = alloc::Counting;

fn usage() -> ! {
    eprintln!("usage: insim_sim <property-id> <quick|thorough> [--runs N] [--workers N] [--hashes FILE] [--no-evidence]\n       insim_sim <property-id> --replay <file>");
    std::process::exit(2)
}

fn go<P: Prop + 'static>(p: P, args: &[String]) -> i32 {
    let p: &'static P = Box::leak(Box::new(p));
    if args.first().map(|s| s.as_str()) == Some("--replay") {
        let Some(path) = args.get(1) else { usage() };
        return driver::replay(p, &PathBuf::from(path));
    }
    let tier_s = args
        .first()
        .cloned()
        .or_else(|| std::env::var("VERIF_TIER").ok())
        .unwrap_or_else(|| "quick".into());
    let tier = match tier_s.as_str() {
        "quick" => Tier::Quick,
        "thorough" => Tier::Thorough,
        _ => usage(),
    };
    let seed = match std::env::var("VERIF_SEED") {
        Ok(s) => s.trim().parse::<u64>().unwrap_or_else(|_| {
            // accept negative / huge integers by hashing the text
            let mut h = rng::Fnv::default();
            h.write(s.as_bytes());
            h.finish()
        }),
        Err(_) => 1,
    };
    let mut opts = Opts {
        tier,
        seed,
        runs_override: None,
        workers: None,
        dump_hashes: None,
        no_evidence: false,
    };
    let mut i = 1;
    while i < args.len() {
        match args[i].as_str() {
            "--runs" => {
                opts.runs_override = args.get(i + 1).and_then(|s| s.parse().ok());
                i += 2;
            },
            "--workers" => {
                opts.workers = args.get(i + 1).and_then(|s| s.parse().ok());
                i += 2;
            },
            "--hashes" => {
                opts.dump_hashes = args.get(i + 1).map(PathBuf::from);
                i += 2;
            },
            "--no-evidence" => {
                opts.no_evidence = true;
                i += 1;
            },
            _ => usage(),
        }
    }
    driver::run_batch(p, &opts)
}

fn main() {
    model::install_quiet_panic_hook();
    let args: Vec<String> = std::env::args().skip(1).collect();
    let Some(id) = args.first() else { usage() };
    let rest = &args[1..];
    let code = match id.as_str() {
        "C04" => go(props::c04::C04, rest),
        "C05" => go(props::c05::C05, rest),
        "C06" => go(props::c06::C06, rest),
        "C07" => go(props::c07::C07, rest),
        "C08" => go(props::c08::C08, rest),
        "C09" => go(props::c09::C09, rest),
        "C17" => go(props::c17::C17, rest),
        "C18" => go(props::c18::C18, rest),
        "C19" => go(props::c19::C19, rest),
        "C20" => go(props::c20::C20, rest),
        _ => {
            eprintln!("unknown property {}", id);
            2
        },
    };
    std::process::exit(code);
}
