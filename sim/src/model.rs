//! Reference model pieces: frame boundaries from the size byte, and the library's own codec
//! applied to ONE isolated frame in a fresh buffer as the definition of "the packet for this
//! frame" (so that the transport properties are blind to codec defects).

use std::{
    cell::RefCell,
    panic::{catch_unwind, AssertUnwindSafe},
};

use bytes::BytesMut;
use insim::{
    identifiers::RequestId,
    insim::{Tiny, TinyType},
    net::Codec,
    Packet,
};

use crate::scenario::SizeMode;

thread_local! {
    static LAST_PANIC: RefCell<Option<String>> = const { RefCell::new(None) };
    /// > 0 while code under test runs inside `guarded` / the executors' catch_unwind
    static GUARD_DEPTH: std::cell::Cell<u32> = const { std::cell::Cell::new(0) };
}

pub fn enter_guard() {
    GUARD_DEPTH.with(|d| d.set(d.get() + 1));
}

pub fn leave_guard() {
    GUARD_DEPTH.with(|d| d.set(d.get().saturating_sub(1)));
}

/// Install a panic hook that records the message per thread instead of printing it.
pub fn install_quiet_panic_hook() {
    std::panic::set_hook(Box::new(|info| {
        let msg = if let Some(s) = info.payload().downcast_ref::<&str>() {
            s.to_string()
        } else if let Some(s) = info.payload().downcast_ref::<String>() {
            s.clone()
        } else {
            "<non-string panic>".to_string()
        };
        let loc = info
            .location()
            .map(|l| format!("{}:{}", l.file(), l.line()))
            .unwrap_or_default();
        // a panic outside guarded code is a defect of the harness itself: say so loudly
        if GUARD_DEPTH.with(|d| d.get()) == 0 {
            eprintln!("harness error: panic in the simulator itself: {} @ {}", first_line(&msg), loc);
        }
        LAST_PANIC.with(|p| *p.borrow_mut() = Some(format!("{} @ {}", first_line(&msg), loc)));
    }));
}

fn first_line(s: &str) -> String {
    let l = s.lines().next().unwrap_or("");
    if l.len() > 200 {
        l.chars().take(200).collect()
    } else {
        l.to_string()
    }
}

pub fn take_panic_msg() -> String {
    LAST_PANIC
        .with(|p| p.borrow_mut().take())
        .unwrap_or_else(|| "<panic>".into())
}

/// Run f, converting a panic into Err(message).
pub fn guarded<T>(f: impl FnOnce() -> T) -> Result<T, String> {
    enter_guard();
    let r = catch_unwind(AssertUnwindSafe(f));
    leave_guard();
    match r {
        Ok(v) => Ok(v),
        Err(_) => Err(take_panic_msg()),
    }
}

#[derive(Clone, Debug, PartialEq, Eq)]
pub enum RefRes {
    Pkt {
        dbg: String,
        keepalive: bool,
        ver: Option<u8>,
    },
    Err(String),
    /// the reference call did not consume the frame (Ok(None) on a complete frame) or other oddity
    Odd(String),
    Panic(String),
}

impl RefRes {
    pub fn is_pkt(&self) -> bool {
        matches!(self, RefRes::Pkt { .. })
    }
}

pub fn is_keepalive(p: &Packet) -> bool {
    matches!(
        p,
        Packet::Tiny(Tiny {
            subt: TinyType::None,
            reqi: RequestId(0),
        })
    )
}

pub fn ver_of(p: &Packet) -> Option<u8> {
    match p {
        Packet::Ver(v) => Some(v.insimver),
        _ => None,
    }
}

/// Reference decode of one isolated frame; also returns the packet for reuse.
pub fn ref_decode_packet(mode: SizeMode, frame: &[u8]) -> (RefRes, Option<Packet>) {
    let codec = Codec::new(mode.to_mode());
    let mut buf = BytesMut::with_capacity(frame.len());
    buf.extend_from_slice(frame);
    match guarded(|| codec.decode(&mut buf)) {
        Err(msg) => (RefRes::Panic(msg), None),
        Ok(Ok(Some(p))) => {
            if !buf.is_empty() {
                return (RefRes::Odd(format!("left {} bytes", buf.len())), None);
            }
            (
                RefRes::Pkt {
                    dbg: format!("{:?}", p),
                    keepalive: is_keepalive(&p),
                    ver: ver_of(&p),
                },
                Some(p),
            )
        },
        Ok(Ok(None)) => (RefRes::Odd("need more data on a complete frame".into()), None),
        Ok(Err(e)) => match e {
            insim::Error::BinRw(s) => (RefRes::Err(s), None),
            other => (RefRes::Odd(format!("{:?}", other)), None),
        },
    }
}

pub fn ref_decode(mode: SizeMode, frame: &[u8]) -> RefRes {
    ref_decode_packet(mode, frame).0
}

/// Reference encode under catch_unwind. Ok(bytes) / Err(reason).
pub fn ref_encode(mode: SizeMode, p: &Packet) -> Result<Vec<u8>, String> {
    let codec = Codec::new(mode.to_mode());
    match guarded(|| codec.encode(p)) {
        Err(msg) => Err(format!("panic: {}", msg)),
        Ok(Err(e)) => Err(format!("{:?}", e)),
        Ok(Ok(b)) => Ok(b.to_vec()),
    }
}

#[derive(Clone, Debug, PartialEq, Eq)]
pub enum FrameKind {
    Complete,
    /// announced length < 4: impossible, the session is dead from here
    BadLength,
    /// stream ends inside this frame
    Partial,
}

#[derive(Clone, Debug)]
pub struct FrameAt {
    pub start: usize,
    pub len: usize,
    pub kind: FrameKind,
}

/// Split a byte stream into frames by size byte. Stops at the first BadLength / Partial.
pub fn split_frames(mode: SizeMode, stream: &[u8]) -> Vec<FrameAt> {
    let mut v = Vec::new();
    let mut i = 0;
    while i < stream.len() {
        let n = mode.announced(stream[i]);
        if n < 4 {
            // An impossible length can only be diagnosed once 4 bytes are there (the decoder
            // may legitimately wait for them); with fewer the stream just ends in a partial.
            let kind = if stream.len() - i >= 4 {
                FrameKind::BadLength
            } else {
                FrameKind::Partial
            };
            v.push(FrameAt {
                start: i,
                len: stream.len() - i,
                kind,
            });
            break;
        }
        if i + n > stream.len() {
            v.push(FrameAt {
                start: i,
                len: stream.len() - i,
                kind: FrameKind::Partial,
            });
            break;
        }
        v.push(FrameAt {
            start: i,
            len: n,
            kind: FrameKind::Complete,
        });
        i += n;
    }
    v
}

/// What the model expects one read() to return for one complete frame.
#[derive(Clone, Debug, PartialEq, Eq)]
pub enum Expect {
    Pkt { dbg: String, keepalive: bool },
    Decode,
    BadVersion(u8),
    /// reference call panicked or was odd: frame outside the workload domain of C05..C20
    Unmodelled,
}

/// The InSim version an IS_VER frame reports, read from the wire by the InSim specification
/// (byte 18 of the 20-byte packet: Size, Type, ReqI, Zero, Version[8], Product[6], InSimVer,
/// Spare) — independently of the library's decoder, whose verdict the gate is judged against.
pub fn wire_version(frame: &[u8]) -> Option<u8> {
    if frame.len() >= 20 && frame[1] == 2 {
        Some(frame[18])
    } else {
        None
    }
}

pub fn expect_for(mode: SizeMode, verify_version: bool, frame: &[u8]) -> Expect {
    match ref_decode(mode, frame) {
        RefRes::Pkt {
            dbg,
            keepalive,
            ver,
        } => {
            // what the packet says on the wire wins over what the decoder made of it
            let ver = match (ver, wire_version(frame)) {
                (Some(_), Some(w)) => Some(w),
                (v, _) => v,
            };
            // likewise a keep-alive is a TINY whose request id and sub-type bytes are both zero
            // on the wire (IS_TINY: Size, Type = 3, ReqI, SubT); a decoder that turns some other
            // TINY into "sub-type none" does not make it one
            let keepalive = keepalive && !(frame.len() >= 4 && frame[1] == 3 && (frame[2] != 0 || frame[3] != 0));
            if verify_version {
                if let Some(v) = ver {
                    if v != 9 {
                        return Expect::BadVersion(v);
                    }
                }
            }
            Expect::Pkt { dbg, keepalive }
        },
        RefRes::Err(_) => Expect::Decode,
        RefRes::Odd(_) | RefRes::Panic(_) => Expect::Unmodelled,
    }
}
