//! History checker for the stream world. Walks the totally ordered trace of one run and
//! evaluates every clause of the sequential reference model (DESIGN.md section 3). Each
//! violation carries a clause id; property checks select the clauses that belong to them.

use std::collections::BTreeMap;

use crate::{
    exec::StreamOutcome,
    link::{AppRes, Ev},
    model::{expect_for, ref_decode_packet, ref_encode, split_frames, Expect, FrameAt, FrameKind},
    rng::Fnv,
    scenario::{AppOp, ErrKind, StreamScenario, WriteEv},
};

#[derive(Clone, Debug, serde::Serialize, serde::Deserialize, PartialEq, Eq)]
pub struct Violation {
    pub clause: String,
    pub detail: String,
}

pub fn v(clause: &str, detail: String) -> Violation {
    Violation {
        clause: clause.to_string(),
        detail,
    }
}

#[derive(Clone, Debug, Default)]
pub struct Facts {
    /// per completed read, the abstract result
    pub results: Vec<AppRes>,
    /// frame-level results (pkt / decode / badver), as rendered strings
    pub frame_results: Vec<String>,
    pub complete_frames: usize,
    pub keepalive_frames: usize,
    pub pong_bytes: usize,
    pub reached_disconnected: bool,
    pub panicked: bool,
    pub budget_exhausted: bool,
    pub dead: bool,
    pub unmodelled: bool,
    pub rejected_ver: bool,
    pub wire_broken: bool,
    pub probes: BTreeMap<&'static str, u64>,
    pub faults: BTreeMap<&'static str, u64>,
    pub signature: u64,
    pub nontrivial: bool,
}

impl Facts {
    fn probe(&mut self, k: &'static str) {
        *self.probes.entry(k).or_insert(0) += 1;
    }
    fn fault(&mut self, k: &'static str) {
        *self.faults.entry(k).or_insert(0) += 1;
    }
}

pub const TIMEOUT_MS: u64 = 90_000;

fn render_expect(e: &Expect) -> String {
    match e {
        Expect::Pkt { dbg, .. } => format!("pkt:{}", dbg),
        Expect::Decode => "decode-error".into(),
        Expect::BadVersion(v) => format!("incompatible-version:{}", v),
        Expect::Unmodelled => "unmodelled".into(),
    }
}

fn render_res(r: &AppRes) -> Option<String> {
    match r {
        AppRes::Pkt(d) => Some(format!("pkt:{}", d)),
        AppRes::Decode(_) => Some("decode-error".into()),
        AppRes::IncompatibleVersion(v) => Some(format!("incompatible-version:{}", v)),
        _ => None,
    }
}

fn short(s: &str) -> String {
    if s.len() > 160 {
        format!("{}…", &s[..s.char_indices().take_while(|(i, _)| *i < 160).last().map(|(i, c)| i + c.len_utf8()).unwrap_or(0)])
    } else {
        s.to_string()
    }
}

pub struct Model {
    pub frames: Vec<FrameAt>,
    pub expects: Vec<Expect>,
    /// end offsets of complete keepalive frames (per model), ascending
    pub ka_ends: Vec<usize>,
    /// end offsets of all complete frames
    pub ends: Vec<usize>,
    pub has_ver: Vec<bool>,
}

pub fn build_model(sc: &StreamScenario) -> Model {
    let frames = split_frames(sc.mode, &sc.inbound);
    let mut expects = Vec::new();
    let mut ka_ends = Vec::new();
    let mut ends = Vec::new();
    let mut has_ver = Vec::new();
    for f in &frames {
        if f.kind != FrameKind::Complete {
            break;
        }
        let bytes = &sc.inbound[f.start..f.start + f.len];
        let e = expect_for(sc.mode, sc.verify_version, bytes);
        if let Expect::Pkt {
            keepalive: true, ..
        } = &e
        {
            ka_ends.push(f.start + f.len);
        }
        has_ver.push(bytes.len() > 1 && bytes[1] == 2);
        ends.push(f.start + f.len);
        expects.push(e);
    }
    Model {
        frames,
        expects,
        ka_ends,
        ends,
        has_ver,
    }
}

fn count_le(sorted: &[usize], x: usize) -> usize {
    sorted.partition_point(|e| *e <= x)
}

pub struct Analysis {
    pub violations: Vec<Violation>,
    pub facts: Facts,
}

/// Evaluate every clause on one run.
pub fn analyze(sc: &StreamScenario, out: &StreamOutcome) -> Analysis {
    let model = build_model(sc);
    let mut vio: Vec<Violation> = Vec::new();
    let mut facts = Facts::default();
    facts.complete_frames = model.expects.len();
    facts.keepalive_frames = model.ka_ends.len();

    let pong = sc.mode.pong();

    // which ops are writes, and their expected encodings
    let mut write_expect: BTreeMap<usize, Vec<u8>> = BTreeMap::new();
    let mut unencodable: std::collections::BTreeSet<usize> = Default::default();
    for (i, op) in sc.ops.iter().enumerate() {
        if let AppOp::Write(f) | AppOp::Handshake(f) | AppOp::WriteCancel { frame: f, .. } = op {
            if let (_, Some(p)) = ref_decode_packet(sc.mode, f) {
                match ref_encode(sc.mode, &p) {
                    Ok(b) => {
                        // the one thing about the encoder that the transport properties cannot
                        // take on trust: what it hands to the transport is ONE frame, as long as
                        // its own size byte says
                        if !b.is_empty() && sc.mode.announced(b[0]) != b.len() {
                            vio.push(v(
                                "wire.frame_length_mismatch",
                                format!("op {}: the encoder produced {} bytes for a packet whose size byte announces {} ({})", i, b.len(), sc.mode.announced(b[0]), crate::scenario::hex::enc(&b[..b.len().min(24)])),
                            ));
                        }
                        let _ = write_expect.insert(i, b);
                    },
                    Err(e) if !e.starts_with("panic") => {
                        // the encoder refuses this packet: the write must fail and put nothing
                        // on the wire (expected frame = empty)
                        let _ = write_expect.insert(i, Vec::new());
                        let _ = unencodable.insert(i);
                    },
                    Err(_) => {},
                }
            }
        }
    }

    // --- walk ---
    let mut delivered = 0usize;
    let mut out_len = 0usize;
    let mut now = 0u64;
    let mut eof_seen = false;
    let mut nf = 0usize; // frame results so far
    let mut dead = false; // session over (framing error, panic, unmodelled): no expectations
    let mut injected_r: Vec<(ErrKind, bool)> = Vec::new();
    let mut injected_w: Vec<(ErrKind, bool)> = Vec::new();
    let mut cur_op: Option<usize> = None;
    let mut op_start_now = 0u64;
    let mut ka_returned = 0usize;
    let mut p_off = 0usize; // bytes of the pong stream on the wire
    let mut a_off = 0usize; // bytes of the current app frame on the wire
    let mut a_done_ops: usize = 0;
    let mut cancelled_ops = 0usize;
    let mut sig = Fnv::default();
    let mut last_ready_was_err = false;
    let mut frames_in_last_read: usize;
    let mut wire_broken = false; // after the first outgoing mismatch stop classifying bytes
    let mut min_off = usize::MAX;
    let mut after_rejection = false;
    let mut accepted_in_op = 0usize;
    let mut vio_at_rejection = usize::MAX;
    // accepted by the write half, not yet handed to the peer (buffered link)
    let mut staged = 0usize;
    // keep-alive frame whose reply write failed: the implementation may drop it or deliver it later
    // keep-alives the blocking connection may have given up because their reply could not be
    // written (tolerated: 12.2) and that have not shown as a gap in the results yet
    let mut skip_debt: usize = 0;

    let is_write_op = |op: usize| write_expect.contains_key(&op);

    for (ti, ev) in out.trace.iter().enumerate() {
        match ev {
            Ev::RData { off, got } => {
                let before = count_le(&model.ends, delivered);
                // position class of the segment start relative to frame boundary
                let fidx = before;
                let fstart = if fidx == 0 { 0 } else { model.ends[fidx - 1] };
                let rel = delivered.saturating_sub(fstart);
                if rel == 0 {
                } else if rel < 4 {
                    facts.probe("split_in_header");
                    if rel == 1 {
                        facts.probe("split_after_size_byte");
                    }
                } else {
                    facts.probe("split_in_body");
                }
                delivered += got;
                let after = count_le(&model.ends, delivered);
                frames_in_last_read = after - before;
                if frames_in_last_read >= 3 {
                    facts.probe("three_or_more_frames_one_read");
                }
                if *got == 1 {
                    facts.probe("single_byte_read");
                }
                if *off < 1020 {
                    facts.probe("offered_lt_1020");
                }
                if *off < min_off {
                    min_off = *off;
                } else if *off > min_off + 2000 {
                    facts.probe("buffer_reclaimed");
                    min_off = *off;
                }
                if last_ready_was_err {
                    facts.probe("data_after_error");
                }
                last_ready_was_err = false;
                sig.u64(1);
                sig.u64(rel.min(5) as u64);
                sig.u64((*got as u64 + 1).ilog2() as u64);
                sig.u64(frames_in_last_read.min(4) as u64);
            },
            Ev::RPending { .. } => {
                facts.fault("read_pending");
                sig.u64(2);
            },
            Ev::RErr { kind, .. } => {
                if !out_is_budget(kind) {
                    injected_r.push((*kind, false));
                }
                facts.fault(match kind {
                    ErrKind::Interrupted => "read_err_interrupted",
                    ErrKind::WouldBlock => "read_err_wouldblock",
                    ErrKind::TimedOut => "read_err_timedout",
                    ErrKind::ConnectionReset => "read_err_connreset",
                    ErrKind::BrokenPipe => "read_err_brokenpipe",
                    ErrKind::WriteZero => "read_err_writezero",
                });
                last_ready_was_err = true;
                sig.u64(3);
                sig.u64(*kind as u64);
            },
            Ev::REof { .. } => {
                if !eof_seen {
                    let complete = count_le(&model.ends, delivered);
                    let at_boundary = complete == 0 && delivered == 0
                        || (complete > 0 && model.ends[complete - 1] == delivered);
                    if at_boundary {
                        facts.fault("eof_at_frame_boundary");
                    } else {
                        facts.fault("eof_inside_frame");
                    }
                }
                eof_seen = true;
                sig.u64(4);
            },
            Ev::WData { off, took } => {
                if took < off {
                    facts.fault("short_write");
                }
                staged += took;
                accepted_in_op += took;
                sig.u64(5);
                sig.u64((*took as u64 + 1).ilog2() as u64);
                sig.u64((took < off) as u64);
            },
            Ev::FlushPending => {
                facts.fault("flush_pending");
                sig.u64(14);
            },
            Ev::Wire { n } => {
                let took = n;
                staged = staged.saturating_sub(*n);
                if sc.buffered {
                    facts.probe("buffered_bytes_flushed");
                }
                let bytes = &out.out[out_len..out_len + took];
                if !wire_broken {
                    let in_write = cur_op.map(&is_write_op).unwrap_or(false);
                    for (bi, b) in bytes.iter().enumerate() {
                        let abs = out_len + bi;
                        if in_write {
                            let e = &write_expect[&cur_op.unwrap()];
                            let mut to_pong = false;
                            if a_off == 0 {
                                if p_off % 4 != 0 {
                                    to_pong = true;
                                } else {
                                    // lookahead: is this the start of a (late) pong frame?
                                    let rest = &out.out[abs..];
                                    if rest.len() >= 4 && rest[..4] == pong && e[..4.min(e.len())] != pong {
                                        to_pong = true;
                                    }
                                }
                            }
                            if to_pong {
                                if *b != pong[p_off % 4] {
                                    vio.push(v(
                                        "wire.torn_pong",
                                        format!("outgoing byte {} = {:#04x} does not continue the partially written keep-alive reply", abs, b),
                                    ));
                                    wire_broken = true;
                                    break;
                                }
                                p_off += 1;
                            } else if a_off < e.len() {
                                if *b != e[a_off] {
                                    vio.push(v(
                                        "wire.write_mismatch",
                                        format!("op {}: outgoing byte {} (offset {} of the frame) = {:#04x}, expected {:#04x}; frame len {}", cur_op.unwrap(), abs, a_off, b, e[a_off], e.len()),
                                    ));
                                    wire_broken = true;
                                    break;
                                }
                                a_off += 1;
                            } else {
                                vio.push(v(
                                    "wire.write_extra",
                                    format!("op {}: byte {:#04x} written after the complete frame of {} bytes", cur_op.unwrap(), b, e.len()),
                                ));
                                wire_broken = true;
                                break;
                            }
                        } else {
                            // read window (or no op): only keep-alive replies may be written
                            if *b != pong[p_off % 4] {
                                vio.push(v(
                                    "wire.non_pong_during_read",
                                    format!("outgoing byte {} = {:#04x} written during a read is not part of a TINY_NONE reply", abs, b),
                                ));
                                wire_broken = true;
                                break;
                            }
                            p_off += 1;
                        }
                    }
                    // a reply may only be started for a keep-alive the link has delivered
                    let started = (p_off + 3) / 4;
                    let ka_deliv = count_le(&model.ka_ends, delivered);
                    if !wire_broken && !dead && started > ka_deliv {
                        vio.push(v(
                            "pong.unjustified",
                            format!("{} keep-alive replies started on the wire but only {} keep-alive frames delivered so far (of {} frames delivered)", started, ka_deliv, count_le(&model.ends, delivered)),
                        ));
                        wire_broken = true;
                    }
                }
                out_len += took;
            },
            Ev::WPending { .. } => {
                facts.fault("write_pending");
                sig.u64(6);
            },
            Ev::WErr { kind, .. } => {
                injected_w.push((*kind, false));
                facts.fault("write_err");
                sig.u64(7);
            },
            Ev::Flush | Ev::Shutdown => {},
            Ev::Clock { ms, now: n } => {
                now = *n;
                if *ms >= TIMEOUT_MS {
                    facts.fault("stall_ge_90s");
                } else {
                    facts.fault("stall_lt_90s");
                }
                sig.u64(8);
                sig.u64((*ms + 1).ilog2() as u64);
            },
            Ev::OpStart { op } => {
                accepted_in_op = 0;
                cur_op = Some(*op);
                op_start_now = now;
                if is_write_op(*op) {
                    a_off = 0;
                }
                sig.u64(9);
                sig.u64(is_write_op(*op) as u64);
            },
            Ev::OpCancelled { op, .. } if is_write_op(*op) => {
                // the application abandoned its own write: whatever prefix of the frame got out
                // stays torn by the application's doing; only a clean abandonment (nothing of the
                // frame written yet) leaves the outgoing side accountable
                let e = &write_expect[op];
                facts.fault("write_cancelled");
                if sc.buffered && accepted_in_op > 0 {
                    // bytes accepted by a buffering transport but not yet flushed cannot be
                    // attributed here; they will legitimately surface later
                    facts.probe("write_cancelled_with_staged_bytes");
                    wire_broken = true;
                } else if a_off > 0 && a_off < e.len() {
                    facts.probe("write_cancelled_mid_frame");
                    wire_broken = true;
                } else if a_off == 0 {
                    facts.probe("write_cancelled_before_first_byte");
                } else {
                    facts.probe("write_cancelled_after_whole_frame");
                }
                cur_op = None;
                sig.u64(15);
            },
            Ev::OpCancelled { op, polls } => {
                cancelled_ops += 1;
                facts.fault("read_cancelled");
                // classify where the cancellation landed from the previous link event
                let mut k = ti;
                let mut kind = "cancel_before_first_poll";
                while k > 0 {
                    k -= 1;
                    match &out.trace[k] {
                        Ev::OpStart { op: o } if o == op => break,
                        Ev::RPending { .. } => {
                            kind = if count_le(&model.ends, delivered) < model.ends.len()
                                && delivered > (if count_le(&model.ends, delivered) == 0 { 0 } else { model.ends[count_le(&model.ends, delivered) - 1] })
                            {
                                "cancel_in_read_with_partial_frame_buffered"
                            } else {
                                "cancel_in_read"
                            };
                            break;
                        },
                        Ev::WPending { .. } => {
                            kind = if p_off % 4 != 0 {
                                "cancel_in_pong_write_after_partial"
                            } else {
                                "cancel_in_pong_write_before_first_byte"
                            };
                            break;
                        },
                        Ev::FlushPending => {
                            kind = "cancel_in_reply_flush";
                            break;
                        },
                        Ev::Clock { .. } => continue,
                        _ => {
                            kind = "cancel_other";
                            break;
                        },
                    }
                }
                let _ = polls;
                facts.probe(kind);
                cur_op = None;
                sig.u64(10);
                sig.write(kind.as_bytes());
            },
            Ev::Panic { op, msg } => {
                facts.panicked = true;
                vio.push(v("panic", format!("op {} panicked: {}", op, msg)));
                dead = true;
                cur_op = None;
                sig.u64(11);
            },
            Ev::Budget { op } => {
                facts.budget_exhausted = true;
                vio.push(v(
                    "no_progress",
                    format!("op {}: transport-call / poll budget exhausted ({} link calls)", op, out.link_calls),
                ));
                dead = true;
                sig.u64(12);
            },
            Ev::OpDone { op, res } => {
                sig.u64(13);
                sig.write(res.class().as_bytes());
                if is_write_op(*op) && unencodable.contains(op) {
                    facts.probe("unencodable_packet_written");
                    if matches!(res, AppRes::Done) && !dead {
                        vio.push(v("write.unencodable_accepted", format!("op {}: write of a packet the encoder refuses returned Ok", op)));
                    }
                    cur_op = None;
                    continue;
                }
                if is_write_op(*op) {
                    let e = &write_expect[op];
                    match res {
                        AppRes::Done => {
                            a_done_ops += 1;
                            if !wire_broken && staged > 0 {
                                vio.push(v(
                                    "wire.unflushed",
                                    format!("op {}: write returned Ok while {} accepted bytes still sit in the transport's buffer (never flushed)", op, staged),
                                ));
                                wire_broken = true;
                            }
                            if !wire_broken && a_off != e.len() {
                                vio.push(v(
                                    "wire.write_incomplete",
                                    format!("op {}: write returned Ok with {} of {} bytes of the frame on the wire", op, a_off, e.len()),
                                ));
                                wire_broken = true;
                            }
                        },
                        AppRes::Io { kind, .. } => {
                            if !consume_err(&mut injected_w, kind) && !dead {
                                vio.push(v("write.spurious_error", format!("op {}: write failed with {:?} which the link never injected", op, res)));
                            } else if kind == "Interrupted" && a_off > 0 && a_off < e.len() && !wire_broken {
                                // EINTR is the blocking transport's way of saying "not ready, call
                                // again": giving up with part of the frame on the wire tears it
                                vio.push(v(
                                    "write.interrupted_mid_frame",
                                    format!("op {}: write gave up with Interrupted after {} of {} bytes of the frame were on the wire", op, a_off, e.len()),
                                ));
                                wire_broken = true;
                            } else if a_off > 0 && a_off < e.len() {
                                // a failed write may leave a prefix behind: the wire is torn by the transport's failure
                                wire_broken = true;
                            }
                        },
                        AppRes::Timeout => {
                            if now - op_start_now < crate::exec::HANDSHAKE_TIMEOUT_MS && !dead {
                                vio.push(v("write.spurious_timeout", format!("op {}: handshake timed out after {} simulated ms", op, now - op_start_now)));
                            } else {
                                facts.probe("handshake_timed_out");
                                if a_off > 0 && a_off < e.len() {
                                    // the handshake gave up mid-frame: the wire is torn by the timeout
                                    wire_broken = true;
                                }
                                if staged > 0 {
                                    wire_broken = true;
                                }
                            }
                        },
                        other => {
                            if !dead {
                                vio.push(v("write.unexpected_result", format!("op {}: {:?}", op, other)));
                            }
                        },
                    }
                    cur_op = None;
                    continue;
                }
                // a read completed
                facts.results.push(res.clone());
                if let Some(r) = render_res(res) {
                    facts.frame_results.push(r);
                }
                if dead {
                    cur_op = None;
                    if matches!(res, AppRes::Disconnected) {
                        facts.reached_disconnected = true;
                    }
                    continue;
                }
                match res {
                    AppRes::Pkt(_) | AppRes::Decode(_) | AppRes::IncompatibleVersion(_) => {
                        let got = render_res(res).unwrap();
                        if nf >= model.expects.len() {
                            // maybe the library produced something out of a bad-length frame
                            let clause = if matches!(res, AppRes::IncompatibleVersion(_)) { "gate.wrong_decision" } else { "order.extra_result" };
                            vio.push(v(clause, format!("read #{} returned {} but the stream holds only {} complete frames", facts.results.len(), short(&got), model.expects.len())));
                            dead = true;
                        } else {
                            // (the dropped keep-alive may be followed by identical ones: the gap
                            // then shows at the end of that run of keep-alives, not at once)
                            if skip_debt > 0 && render_expect(&model.expects[nf]) != got {
                                let mut j = 0usize;
                                while j < skip_debt && nf + j < model.expects.len() && is_ka(&model.expects[nf + j]) {
                                    j += 1;
                                    if nf + j < model.expects.len() && render_expect(&model.expects[nf + j]) == got {
                                        // the keep-alives whose replies could not be written were dropped
                                        nf += j;
                                        skip_debt -= j;
                                        facts.probe("keepalive_dropped_after_write_error");
                                        break;
                                    }
                                }
                            }
                            if !is_ka(&model.expects[nf]) {
                                skip_debt = 0;
                            }
                            let exp = &model.expects[nf];
                            if *exp == Expect::Unmodelled {
                                facts.unmodelled = true;
                                dead = true;
                            } else {
                                let want = render_expect(exp);
                                if model.ends[nf] > delivered {
                                    vio.push(v("order.phantom", format!("read returned a result for frame {} before the link delivered it", nf)));
                                    dead = true;
                                } else if want != got {
                                    let gate = model.has_ver[nf]
                                        || matches!(exp, Expect::BadVersion(_))
                                        || matches!(res, AppRes::IncompatibleVersion(_));
                                    // is it a later or earlier frame's result? (lost / duplicated)
                                    let later = model.expects.iter().skip(nf + 1).position(|e| render_expect(e) == got);
                                    let prev_same = nf > 0 && render_expect(&model.expects[nf - 1]) == got;
                                    let version_error_for_non_ver = matches!(res, AppRes::IncompatibleVersion(_)) && !model.has_ver[nf];
                                    // a version error for this frame although the wire does not call for
                                    // one (not a VER, or a VER reporting 9 / gate off): the gate's doing,
                                    // unless it is plainly the next frame's due rejection (a shift)
                                    let undue_version_error = matches!(res, AppRes::IncompatibleVersion(_));
                                    let _ = version_error_for_non_ver;
                                    let kind = if undue_version_error && later != Some(0) {
                                        "gate.wrong_decision"
                                    } else if let Some(k) = later {
                                        // the result of a later frame: something in between got lost
                                        if matches!(exp, Expect::BadVersion(_)) && k == 0 && matches!(res, AppRes::Pkt(_)) && !prev_same {
                                            // ... and what got lost is exactly the version error due here
                                            "gate.rejection_lost"
                                        } else if k == 0 {
                                            "order.frame_lost"
                                        } else {
                                            "order.frames_lost"
                                        }
                                    } else if gate && same_modulo_gate(exp, res) {
                                        "gate.wrong_decision"
                                    } else if prev_same {
                                        "order.duplicated"
                                    } else {
                                        "order.wrong_result"
                                    };
                                    if !after_rejection || kind.starts_with("gate.") {
                                        vio.push(v(kind, format!("frame {} (of {}): expected {}, read returned {}", nf, model.expects.len(), short(&want), short(&got))));
                                    }
                                    dead = true;
                                } else {
                                    if let Expect::Pkt { keepalive: true, .. } = exp {
                                        ka_returned += 1;
                                        if !wire_broken && staged > 0 {
                                            vio.push(v(
                                                "wire.unflushed",
                                                format!("keep-alive #{} handed to the caller while {} bytes of outgoing data still sit unflushed in the transport's buffer", ka_returned + 0, staged),
                                            ));
                                            wire_broken = true;
                                        }
                                        if !wire_broken && p_off / 4 < ka_returned {
                                            vio.push(v(
                                                if p_off % 4 != 0 { "wire.partial_pong_at_return" } else { "pong.missing_at_return" },
                                                format!("keep-alive #{} handed to the caller with only {} complete replies ({} bytes) on the wire", ka_returned, p_off / 4, p_off),
                                            ));
                                        }
                                    }
                                    if matches!(res, AppRes::Decode(_)) {
                                        facts.probe("decode_error_result");
                                    }
                                    if matches!(res, AppRes::IncompatibleVersion(_)) {
                                        facts.probe("ver_rejected");
                                        // "the connection is lost" (builder docs): after a correct
                                        // rejection only the gate itself is still held to account
                                        // (no later frame may be answered with a version error
                                        // unless it is itself a bad VER); everything else is
                                        // unconstrained
                                        if !after_rejection {
                                            vio_at_rejection = vio.len();
                                        }
                                        after_rejection = true;
                                        facts.rejected_ver = true;
                                    }
                                    if model.has_ver[nf] && matches!(res, AppRes::Pkt(_)) {
                                        facts.probe("ver_delivered");
                                    }
                                }
                                nf += 1;
                            }
                        }
                    },
                    AppRes::Io { kind, msg } => {
                        if msg.contains("SIM-BUDGET-EXHAUSTED") {
                            // reported through Ev::Budget
                        } else if consume_err(&mut injected_r, kind) {
                            facts.probe("transient_error_surfaced");
                            // a blocking socket's read timeout is how a quiet link looks there:
                            // same rule as for the async connection's Timeout below
                            if sc.imp == crate::scenario::Imp::Blocking && (kind == "WouldBlock" || kind == "TimedOut") {
                                withheld_check(&model, nf, skip_debt, delivered, "the transport's read timeout", &mut vio, &mut facts);
                            }
                        } else if consume_err(&mut injected_w, kind) {
                            facts.probe("reply_write_error_surfaced");
                            let at = nf + skip_debt;
                            if at < model.expects.len() && model.ends[at] <= delivered {
                                // the blocking connection gives up the keep-alive whose reply it
                                // could not write (tolerated: 12.2); the async one parks it and
                                // hands it over once the reply is out
                                if is_ka(&model.expects[at]) && sc.imp == crate::scenario::Imp::Blocking {
                                    skip_debt += 1;
                                }
                            }
                        } else if bad_length_pending(&model, nf, delivered) {
                            facts.probe("framing_error_result");
                            dead = true;
                        } else {
                            vio.push(v("read.spurious_error", format!("read #{} failed with {:?} which the link never injected (frame {} of {} next)", facts.results.len(), res, nf, model.expects.len())));
                            dead = true;
                        }
                    },
                    AppRes::Timeout => {
                        facts.probe("timeout_fired");
                        if now - op_start_now < TIMEOUT_MS {
                            vio.push(v("read.spurious_timeout", format!("read #{} timed out after only {} simulated ms", facts.results.len(), now - op_start_now)));
                        }
                        withheld_check(&model, nf, skip_debt, delivered, "Timeout", &mut vio, &mut facts);
                    },
                    AppRes::Disconnected => {
                        facts.reached_disconnected = true;
                        let complete = count_le(&model.ends, delivered);
                        if !eof_seen {
                            vio.push(v("read.disconnected_without_eof", format!("read #{} returned Disconnected but the link never signalled end of stream", facts.results.len())));
                            dead = true;
                        } else if nf < complete && !bad_length_pending(&model, nf, delivered) && !(complete - nf <= skip_debt && (nf..complete).all(|k| is_ka(&model.expects[k]))) {
                            vio.push(v("order.lost_at_eof", format!("Disconnected after {} frame results but {} complete frames were delivered", nf, complete)));
                            // keep-alives among the frames left behind were received, and are owed a reply
                            let ka_received = count_le(&model.ka_ends, delivered);
                            let write_faults = sc.writes.iter().any(|w| matches!(w, WriteEv::Err(_) | WriteEv::Zero));
                            if !write_faults && !wire_broken && p_off % 4 == 0 && p_off / 4 < ka_received {
                                vio.push(v(
                                    "pong.unanswered_at_eof",
                                    format!("{} keep-alives arrived in full before the stream ended, {} replies on the wire at Disconnected", ka_received, p_off / 4),
                                ));
                            }
                            dead = true;
                        }
                    },
                    AppRes::Done | AppRes::Other(_) => {
                        vio.push(v("read.unexpected_result", format!("{:?}", res)));
                        dead = true;
                    },
                }
                cur_op = None;
            },
        }
    }

    // --- end-of-run clauses ---
    let has_drain = sc.ops.iter().any(|o| matches!(o, AppOp::Drain { .. }));
    let healthy_end = !dead && !facts.panicked && !facts.budget_exhausted;
    if has_drain && healthy_end && !facts.reached_disconnected {
        vio.push(v(
            "no_progress",
            format!("drain ended without Disconnected: {} frame results of {} complete frames, {} results in total", nf, model.expects.len(), facts.results.len()),
        ));
    }
    if has_drain && healthy_end && facts.reached_disconnected && !wire_broken {
        if p_off % 4 != 0 {
            vio.push(v("wire.torn_pong_at_end", format!("session ended with {} bytes of keep-alive replies on the wire (a partial frame)", p_off)));
        } else if p_off / 4 != ka_returned {
            vio.push(v("pong.count_at_end", format!("{} keep-alives handed to the caller, {} replies on the wire", ka_returned, p_off / 4)));
        } else {
            // the history of RECEIVED packets is what counts: a keep-alive that arrived in full
            // before the stream ended has to be answered, handed to the caller or not (where no
            // reply write was made to fail)
            let ka_received = count_le(&model.ka_ends, delivered);
            let write_faults = sc.writes.iter().any(|w| matches!(w, WriteEv::Err(_) | WriteEv::Zero));
            if !write_faults && p_off / 4 < ka_received {
                vio.push(v(
                    "pong.unanswered_at_eof",
                    format!("{} keep-alives arrived in full before the stream ended, {} replies on the wire at Disconnected", ka_received, p_off / 4),
                ));
            }
        }
    }
    if after_rejection && vio_at_rejection < vio.len() {
        // after a correct rejection only the gate, the outgoing side (incl. keep-alive replies: the
        // history of received packets goes on) and panics stay accountable
        let tail: Vec<Violation> = vio
            .split_off(vio_at_rejection)
            .into_iter()
            .filter(|x| x.clause.starts_with("gate.") || x.clause == "wire.non_pong_during_read" || x.clause == "panic" || x.clause == "pong.missing_at_return" || x.clause == "pong.unjustified")
            .collect();
        vio.extend(tail);
    }
    facts.pong_bytes = p_off;
    facts.wire_broken = wire_broken;
    facts.dead = dead;
    if ka_returned > 0 {
        facts.probe("keepalive_returned");
    }
    if cancelled_ops > 0 && ka_returned > 0 {
        facts.probe("cancel_and_keepalive_same_run");
    }
    if a_done_ops > 0 && ka_returned > 0 {
        facts.probe("write_and_keepalive_same_run");
    }
    if delivered > 6120 {
        facts.probe("session_gt_buffer");
    }
    if delivered > 3 * 6120 {
        facts.probe("session_gt_3x_buffer");
    }
    let _ = injected_w;
    facts.signature = sig.finish();
    facts.nontrivial = facts.faults.values().any(|c| *c > 0)
        || facts.probes.get("split_in_header").copied().unwrap_or(0) > 0
        || facts.probes.get("split_in_body").copied().unwrap_or(0) > 0;
    Analysis {
        violations: vio,
        facts,
    }
}

fn out_is_budget(_k: &ErrKind) -> bool {
    false
}

/// true if results differ only in the version gate's decision about the same frame
fn same_modulo_gate(exp: &Expect, res: &AppRes) -> bool {
    match (exp, res) {
        (Expect::BadVersion(_), AppRes::Pkt(d)) => d.starts_with("Ver("),
        (Expect::BadVersion(_), AppRes::IncompatibleVersion(_)) => true,
        (Expect::Pkt { .. }, AppRes::IncompatibleVersion(_)) => true,
        _ => false,
    }
}

/// A read gave up waiting for the link (Timeout / the socket's read timeout) although the next
/// frame had already arrived in full: the connection sat on a complete frame — and, if that frame
/// is a keep-alive, on its reply — for the whole waiting time.
fn is_ka(e: &Expect) -> bool {
    matches!(e, Expect::Pkt { keepalive: true, .. })
}

fn withheld_check(model: &Model, nf: usize, skip_debt: usize, delivered: usize, what: &str, vio: &mut Vec<Violation>, facts: &mut Facts) {
    let mut eff = nf;
    while eff < nf + skip_debt && eff < model.expects.len() && is_ka(&model.expects[eff]) {
        eff += 1;
    }
    let complete = count_le(&model.ends, delivered);
    if eff < complete && eff < model.expects.len() {
        facts.probe("gave_up_with_frame_buffered");
        vio.push(v(
            "read.gave_up_with_frame_buffered",
            format!("read #{} ended with {} although frame {} ({} complete frames had arrived) was already buffered in full", facts.results.len(), what, eff, complete),
        ));
        if let Expect::Pkt { keepalive: true, .. } = model.expects[eff] {
            vio.push(v(
                "pong.withheld",
                format!("read #{} ended with {} while keep-alive frame {} sat in the receive buffer, complete and unanswered", facts.results.len(), what, eff),
            ));
        }
    }
}

fn bad_length_pending(model: &Model, nf: usize, delivered: usize) -> bool {
    // the next frame after nf complete ones is a BadLength frame and at least 4 of its bytes arrived
    if nf != model.expects.len() {
        return false;
    }
    match model.frames.get(nf) {
        Some(f) if f.kind == FrameKind::BadLength => delivered >= f.start + 4,
        _ => false,
    }
}

fn consume_err(inj: &mut [(ErrKind, bool)], kind: &str) -> bool {
    for e in inj.iter_mut() {
        if !e.1 && format!("{:?}", e.0.to_io()) == kind {
            e.1 = true;
            return true;
        }
    }
    false
}

/// Stable 64-bit hash of a whole trace (for determinism checks).
pub fn trace_hash(out: &StreamOutcome) -> u64 {
    let mut h = Fnv::default();
    let s = serde_json::to_string(&out.trace).unwrap();
    h.write(s.as_bytes());
    h.write(&out.out);
    h.u64(out.delivered as u64);
    h.finish()
}
