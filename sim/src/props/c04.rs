//! C04 — decoding untrusted bytes is total, bounded and always progresses.
//!
//! A hostile / corrupting link delivers a damaged frame stream in scripted segments into one
//! long-lived receive buffer (the public `Codec::decode(&mut BytesMut)`), and through both real
//! connections. Invariants are evaluated after every decoder call.

use std::sync::OnceLock;

use bytes::BytesMut;
use insim::net::Codec;
use serde::{Deserialize, Serialize};
use serde_json::{json, Value};

use crate::{
    driver::{Prop, RunReport, Tier},
    exec,
    gen::{self, FrameMix, GenStats},
    model::{guarded, ref_decode, RefRes},
    oracle::{analyze, trace_hash, v},
    rng::{Fnv, Rng},
    scenario::{hex, AppOp, Imp, ReadEv, SizeMode, StreamScenario},
};

pub struct C04;

#[derive(Serialize, Deserialize, Clone, Debug, PartialEq, Eq)]
pub struct CodecSc {
    pub mode: SizeMode,
    #[serde(with = "hex")]
    pub stream: Vec<u8>,
    /// segment lengths; the remainder of the stream arrives as one last segment
    pub segs: Vec<usize>,
    /// human-readable origin of the case (sweep coordinates / mutation list)
    #[serde(default)]
    pub note: String,
    /// run with a tracing subscriber that enables every span and event
    #[serde(default)]
    pub trace: bool,
}

fn res_class(r: &Result<Result<Option<insim::Packet>, insim::Error>, String>) -> String {
    match r {
        Err(m) => format!("panic:{}", m),
        Ok(Ok(Some(p))) => format!("pkt:{:?}", p),
        Ok(Ok(None)) => "need-more".into(),
        Ok(Err(insim::Error::BinRw(_))) => "decode-error".into(),
        Ok(Err(e)) => format!("error:{:?}", e),
    }
}

struct CodecRun {
    violations: Vec<crate::oracle::Violation>,
    hash: u64,
    sig: u64,
    probes: Vec<&'static str>,
    decodes: u64,
}

fn run_codec(sc: &CodecSc) -> CodecRun {
    let codec = Codec::new(sc.mode.to_mode());
    let mut buf = BytesMut::new();
    let mut vio = Vec::new();
    let mut h = Fnv::default();
    let mut sig = Fnv::default();
    let mut probes: Vec<&'static str> = Vec::new();
    let mut decodes = 0u64;
    let mut pos = 0usize;
    let mut segs: Vec<usize> = sc.segs.clone();
    segs.push(usize::MAX);
    'session: for s in segs {
        if pos >= sc.stream.len() {
            break;
        }
        let n = s.min(sc.stream.len() - pos).max(1);
        buf.extend_from_slice(&sc.stream[pos..pos + n]);
        pos += n;
        let mut guard = 0;
        loop {
            guard += 1;
            if guard > 5000 {
                vio.push(v("decode.no_progress", "decoder called 5000 times on one delivery without asking for more data".into()));
                break 'session;
            }
            let before = buf.to_vec();
            let l = before.len();
            let r = guarded(|| codec.decode(&mut buf));
            decodes += 1;
            let cls = res_class(&r);
            h.write(cls.as_bytes());
            h.u64(buf.len() as u64);
            let after = buf.to_vec();
            if let Err(m) = &r {
                vio.push(v(
                    "decode.panic",
                    format!("decoder panicked on a buffer of {} bytes starting {}: {}", l, hex::enc(&before[..l.min(12)]), m),
                ));
                break 'session;
            }
            if l == 0 {
                if cls != "need-more" || !after.is_empty() {
                    vio.push(v("decode.empty_buffer", format!("empty buffer gave {}", cls)));
                }
                break;
            }
            let ann = sc.mode.announced(before[0]);
            let removed_front = l.checked_sub(after.len()).filter(|k| before[*k..] == after[..]);
            if ann < 4 {
                // impossible announced length
                if l < 4 {
                    // may wait for more or diagnose at once
                    if cls == "need-more" {
                        if after != before {
                            vio.push(v("decode.need_more_touched_buffer", format!("need-more but buffer changed ({} -> {} bytes)", l, after.len())));
                        }
                        sig.u64(1);
                        break;
                    }
                    if cls.starts_with("pkt:") {
                        vio.push(v("decode.impossible_length_accepted", format!("size byte {:#04x} announces {} bytes but a packet was returned", before[0], ann)));
                    }
                    break 'session;
                }
                probes.push("impossible_length_seen");
                sig.u64(2);
                if cls == "need-more" {
                    vio.push(v(
                        "decode.impossible_length_stalls",
                        format!("size byte {:#04x} announces {} bytes: decoder answers need-more with {} bytes buffered (the connection would wait forever)", before[0], ann, l),
                    ));
                } else if cls.starts_with("pkt:") {
                    vio.push(v("decode.impossible_length_accepted", format!("size byte {:#04x} announces {} bytes but a packet was returned: {}", before[0], ann, cls)));
                } else {
                    // an error: must not have nibbled fewer than 4 bytes off the stream
                    match removed_front {
                        Some(0) => {},
                        Some(k) if k == l => {},
                        Some(k) => vio.push(v(
                            "decode.impossible_length_consumed",
                            format!("size byte {:#04x} announces {} bytes: decoder removed {} bytes and reported {} (a frame is at least 4 bytes; the stream is now desynchronised)", before[0], ann, k, cls),
                        )),
                        None => vio.push(v("decode.buffer_rewritten", "buffer is not a suffix of itself after the call".into())),
                    }
                }
                break 'session; // framing error: session over
            }
            if l < ann {
                sig.u64(3);
                if l < 4 {
                    probes.push("partial_header_buffered");
                }
                if cls != "need-more" {
                    vio.push(v("decode.partial_frame_not_waited", format!("{} of {} announced bytes buffered but decoder returned {}", l, ann, cls)));
                    break 'session;
                }
                if after != before {
                    vio.push(v("decode.need_more_touched_buffer", format!("need-more but buffer changed ({} -> {} bytes)", l, after.len())));
                    break 'session;
                }
                // the decoder takes the buffer as an argument: what it answered for this buffer
                // must not colour its answer for another one (same Codec, unrelated buffer)
                if l >= 4 {
                    probes.push("same_codec_other_buffer");
                    let probe_frame = crate::gen::tiny(sc.mode, 0x5A, 3);
                    let mut other = BytesMut::from(&probe_frame[..]);
                    let r2 = guarded(|| codec.decode(&mut other));
                    let c2 = res_class(&r2);
                    if !c2.starts_with("pkt:Tiny") || !other.is_empty() {
                        vio.push(v(
                            "decode.state_across_buffers",
                            format!("after answering need-more for a buffer holding {} of {} bytes, the same Codec given a fresh buffer with one complete TINY frame returned {} and left {} bytes", l, ann, c2.chars().take(80).collect::<String>(), other.len()),
                        ));
                        break 'session;
                    }
                }
                break;
            }
            // a complete frame of `ann` bytes is at the front
            sig.u64(4);
            sig.u64((ann as u64).ilog2() as u64);
            if cls == "need-more" {
                vio.push(v("decode.complete_frame_not_decoded", format!("{} bytes buffered, frame announces {}, decoder answers need-more", l, ann)));
                break 'session;
            }
            if cls.starts_with("error:") {
                vio.push(v("decode.framing_error_on_possible_length", format!("frame announces a possible length {} but decoder reported {}", ann, cls)));
                break 'session;
            }
            match removed_front {
                Some(k) if k == ann => {},
                Some(k) => {
                    vio.push(v(
                        "decode.wrong_amount_removed",
                        format!("frame announces {} bytes, decoder removed {} ({}); result {}", ann, k, if k > ann { "bytes of the following frames are gone" } else { "stream desynchronised" }, cls.chars().take(80).collect::<String>()),
                    ));
                    break 'session;
                },
                None => {
                    vio.push(v("decode.buffer_rewritten", "remaining buffer is not the old buffer minus a prefix".into()));
                    break 'session;
                },
            }
            // suffix independence: same result as decoding the frame alone
            let alone = match ref_decode(sc.mode, &before[..ann]) {
                RefRes::Pkt { dbg, .. } => format!("pkt:{}", dbg),
                RefRes::Err(_) => "decode-error".into(),
                RefRes::Odd(s) => format!("odd:{}", s),
                RefRes::Panic(m) => format!("panic:{}", m),
            };
            if alone != cls {
                vio.push(v(
                    "decode.depends_on_following_bytes",
                    format!("frame {} decodes to {} alone but to {} when followed by {} more bytes", hex::enc(&before[..ann.min(16)]), alone.chars().take(80).collect::<String>(), cls.chars().take(80).collect::<String>(), l - ann),
                ));
                break 'session;
            }
            if cls == "decode-error" {
                probes.push("decode_error_then_continue");
            }
        }
    }
    CodecRun {
        violations: vio,
        hash: h.finish(),
        sig: sig.finish(),
        probes,
        decodes,
    }
}

fn as_stream(sc: &CodecSc, imp: Imp) -> StreamScenario {
    let frames = crate::model::split_frames(sc.mode, &sc.stream).len();
    StreamScenario {
        imp,
        mode: sc.mode,
        verify_version: false,
        explicit_gate: true,
        flushes: vec![],
        buffered: false,
        gate_calls: vec![],
        trace: sc.trace,
        via_builder: None,
        inbound: sc.stream.clone(),
        reads: sc.segs.iter().map(|n| ReadEv::Data((*n).max(1))).collect(),
        writes: vec![],
        ops: vec![AppOp::Drain {
            max: (frames + 3) as u32,
        }],
    }
}

// ---------------- sweeps ----------------

/// one zero-bodied frame per (known type, accepted size class) and mode
fn base_frames() -> &'static Vec<(SizeMode, Vec<u8>)> {
    static B: OnceLock<Vec<(SizeMode, Vec<u8>)>> = OnceLock::new();
    B.get_or_init(|| {
        let mut v = Vec::new();
        for mode in [SizeMode::Compressed, SizeMode::Uncompressed] {
            for (t, sizes) in &gen::corpus(mode).ok_sizes {
                let mut pick = vec![sizes[0]];
                // a second, larger accepted size for variable-length kinds
                if let Some(s) = sizes.iter().find(|s| **s >= sizes[0] + 8 && **s <= 64) {
                    pick.push(*s);
                }
                for n in pick {
                    let mut f = vec![0u8; n];
                    f[0] = mode.size_byte(n);
                    f[1] = *t;
                    f[2] = 1;
                    v.push((mode, f));
                }
            }
            // kinds that refuse an all-zero body (they want a valid track / vehicle code)
            for (_, f) in &gen::corpus(mode).templates {
                v.push((mode, f.clone()));
            }
        }
        v
    })
}

const QUICK_VALUES: [u8; 10] = [0, 1, 5, 9, 0x1f, 0x40, 0x7f, 0x80, 0xfe, 0xff];

/// multi-byte patterns written over a frame at every position (text escapes, codepage markers,
/// UTF-8 sequences, version syntax): the crashing inputs of text decoders are rarely single bytes
const PATTERNS: [&[u8]; 29] = [
    // track codes with over-long numbers / configurations
    b"BL2024", b"RO1234X", b"AS12345R",
    // characters that are numeric / alphabetic by Unicode but not ASCII
    b"0.7A\xC2\xB2", b"7\xC2\xBD", b"\xD9\xA3", b"0.6\xD0\x96",
    // domain dictionary: built-in vehicle codes and track codes, NUL-terminated as on the wire
    b"XFG\x00", b"FZ5\x00", b"BF1\x00", b"UF1\x00", b"MRT\x00", b"BL1\x00", b"AS1R", b"FE2X",
    b"x^J", b"^J", b"^^", b"^", b"1^L^", b"^8x", b"\xC3\xA9", b"0.7\xC3\xA9", b"0.7A\xC3\xA9", b"\xE2\x82\xAC", b"\xF0\x9F\x98\x80",
    b"\xFF\xFE", b"9\xC3", b"^\xC3\xA9",
];

/// values for the two-byte sweep: the range enum-typed fields live in, plus the extremes
const PAIR_VALUES_QUICK: [u8; 10] = [0, 1, 2, 3, 4, 5, 6, 7, 8, 9];
const PAIR_VALUES_THOROUGH: [u8; 17] = [0, 1, 2, 3, 4, 5, 6, 7, 8, 9, 10, 11, 12, 31, 0x7f, 0x80, 0xff];

fn pair_values(tier: Tier) -> &'static [u8] {
    match tier {
        Tier::Quick => &PAIR_VALUES_QUICK,
        Tier::Thorough => &PAIR_VALUES_THOROUGH,
    }
}

fn pair_max_len(tier: Tier) -> usize {
    match tier {
        Tier::Quick => 8,
        Tier::Thorough => 20,
    }
}

struct Sweeps {
    /// two coordinated bytes: (base frame index, cumulative start)
    e_offsets: Vec<(usize, u64)>,
    e: u64,
    d_offsets: Vec<u64>,
    d: u64,
    a: u64,           // header pairs
    b_offsets: Vec<u64>, // cumulative start per base frame (positions * values)
    b: u64,
    c_offsets: Vec<u64>,
    c: u64,
    values: usize,
    /// hole sweep: cumulative start per base frame
    f_offsets: Vec<u64>,
    f: u64,
}

/// hole sweep: the body filled with one non-zero value, one byte replaced (a lone terminator, a
/// lone escape, a lone high byte in otherwise uniform text / numbers)
const HOLE_FILLS: [u8; 5] = [0x01, 0xFF, b'a', 0x20, b'1'];
const HOLE_VALUES: [u8; 3] = [0x00, b'^', 0x80];

fn sweeps(tier: Tier) -> Sweeps {
    let values = match tier {
        Tier::Quick => QUICK_VALUES.len(),
        Tier::Thorough => 256,
    };
    let mut b_offsets = Vec::new();
    let mut b = 0u64;
    let mut c_offsets = Vec::new();
    let mut c = 0u64;
    let mut d_offsets = Vec::new();
    let mut d = 0u64;
    let mut e_offsets = Vec::new();
    let mut e = 0u64;
    let mut f_offsets = Vec::new();
    let mut ff = 0u64;
    for (_, f) in base_frames() {
        f_offsets.push(ff);
        ff += ((f.len() - 2) * HOLE_FILLS.len() * HOLE_VALUES.len()) as u64;
    }
    let pv = pair_values(tier).len() as u64;
    for (bi, (_, f)) in base_frames().iter().enumerate() {
        if f.len() <= pair_max_len(tier) {
            let body = (f.len() - 2) as u64;
            e_offsets.push((bi, e));
            e += body * (body - 1) / 2 * pv * pv;
        }
    }
    for (_, f) in base_frames() {
        d_offsets.push(d);
        d += ((f.len() - 2) * PATTERNS.len()) as u64;
        b_offsets.push(b);
        b += (f.len() * values) as u64;
        c_offsets.push(c);
        c += (f.len() - 1) as u64;
    }
    Sweeps {
        a: 2 * 256 * 256 * 2,
        b_offsets,
        b,
        c_offsets,
        c,
        values,
        d_offsets,
        d,
        e_offsets,
        e,
        f_offsets,
        f: ff,
    }
}

fn successor(mode: SizeMode) -> Vec<u8> {
    let mut s = gen::tiny(mode, 2, 3);
    s.extend_from_slice(&gen::keepalive(mode));
    s
}

impl Prop for C04 {
    type Sc = CodecSc;

    fn id(&self) -> &'static str {
        "C04"
    }
    fn level(&self) -> &'static str {
        "fault_enumeration"
    }
    fn runs(&self, tier: Tier) -> u64 {
        match tier {
            Tier::Quick => 20_000,
            Tier::Thorough => 2_000_000,
        }
    }
    fn sweep_len(&self, tier: Tier) -> u64 {
        let s = sweeps(tier);
        s.a + s.b + s.c + s.d + s.e + s.f
    }
    fn sweep_case(&self, tier: Tier, idx: u64) -> CodecSc {
        let orig_idx = idx;
        let s = sweeps(tier);
        let main = s.a + s.b + s.c + s.d + s.e;
        if idx >= main {
            let idx = idx - main;
            let bi = s.f_offsets.partition_point(|o| *o <= idx) - 1;
            let (mode, base) = &base_frames()[bi];
            let mut r = (idx - s.f_offsets[bi]) as usize;
            let hole = HOLE_VALUES[r % HOLE_VALUES.len()];
            r /= HOLE_VALUES.len();
            let fill = HOLE_FILLS[r % HOLE_FILLS.len()];
            r /= HOLE_FILLS.len();
            let pos = 2 + r;
            let mut f = base.clone();
            for b in f.iter_mut().skip(2) {
                *b = fill;
            }
            f[pos] = hole;
            f.extend_from_slice(&successor(*mode));
            return CodecSc {
                mode: *mode,
                stream: f,
                segs: vec![],
                note: format!("hole sweep: frame of type {} ({} bytes), body filled with {:#04x}, byte {} := {:#04x}", base[1], base.len(), fill, pos, hole),
                trace: orig_idx % 16 == 5,
            };
        }
        if idx < s.a {
            let fill = if idx & 1 == 0 { 0x00 } else { 0xFF };
            let ty = ((idx >> 1) & 255) as u8;
            let sz = ((idx >> 9) & 255) as u8;
            let mode = if (idx >> 17) & 1 == 0 { SizeMode::Compressed } else { SizeMode::Uncompressed };
            let ann = mode.announced(sz);
            let mut f = vec![fill; ann.max(4)];
            f[0] = sz;
            f[1] = ty;
            f.extend_from_slice(&successor(mode));
            return CodecSc {
                mode,
                stream: f,
                segs: if idx % 3 == 0 { vec![2, 1, 1] } else { vec![] },
                note: format!("header sweep: size byte {:#04x}, type {}, body fill {:#04x}", sz, ty, fill),
                trace: orig_idx % 16 == 5,
            };
        }
        let idx = idx - s.a;
        if idx < s.b {
            let bi = s.b_offsets.partition_point(|o| *o <= idx) - 1;
            let (mode, base) = &base_frames()[bi];
            let r = (idx - s.b_offsets[bi]) as usize;
            let pos = r / s.values;
            let val = if s.values == 256 { (r % 256) as u8 } else { QUICK_VALUES[r % s.values] };
            let mut f = base.clone();
            f[pos] = val;
            f.extend_from_slice(&successor(*mode));
            return CodecSc {
                mode: *mode,
                stream: f,
                segs: vec![],
                note: format!("substitution sweep: frame of type {} ({} bytes), byte {} := {:#04x}", base[1], base.len(), pos, val),
                trace: orig_idx % 16 == 5,
            };
        }
        let idx = idx - s.b;
        if idx >= s.c + s.d {
            // two coordinated bytes
            let idx = idx - s.c - s.d;
            let k = s.e_offsets.partition_point(|o| o.1 <= idx) - 1;
            let (bi, start) = s.e_offsets[k];
            let (mode, base) = &base_frames()[bi];
            let pv = pair_values(tier);
            let mut r = idx - start;
            let vb = pv[(r % pv.len() as u64) as usize];
            r /= pv.len() as u64;
            let va = pv[(r % pv.len() as u64) as usize];
            r /= pv.len() as u64;
            // r indexes the pair (i < j) of body positions
            let body = base.len() - 2;
            let (mut i, mut j) = (0usize, 1usize);
            let mut cnt = r as usize;
            'find: for a in 0..body {
                for b in a + 1..body {
                    if cnt == 0 {
                        i = a;
                        j = b;
                        break 'find;
                    }
                    cnt -= 1;
                }
            }
            let mut f = base.clone();
            f[2 + i] = va;
            f[2 + j] = vb;
            f.extend_from_slice(&successor(*mode));
            return CodecSc {
                mode: *mode,
                stream: f,
                segs: vec![],
                note: format!("pair sweep: frame of type {} ({} bytes), byte {} := {:#04x}, byte {} := {:#04x}", base[1], base.len(), 2 + i, va, 2 + j, vb),
                trace: orig_idx % 16 == 5,
            };
        }
        if idx >= s.c {
            let idx = idx - s.c;
            let bi = s.d_offsets.partition_point(|o| *o <= idx) - 1;
            let (mode, base) = &base_frames()[bi];
            let r = (idx - s.d_offsets[bi]) as usize;
            let pos = 2 + r / PATTERNS.len();
            let pat = PATTERNS[r % PATTERNS.len()];
            let mut f = base.clone();
            for (i, b) in pat.iter().enumerate() {
                if pos + i < f.len() {
                    f[pos + i] = *b;
                }
            }
            f.extend_from_slice(&successor(*mode));
            return CodecSc {
                mode: *mode,
                stream: f,
                segs: vec![],
                note: format!("pattern sweep: frame of type {} ({} bytes), bytes {}.. := {}", base[1], base.len(), pos, hex::enc(pat)),
                trace: orig_idx % 16 == 5,
            };
        }
        let bi = s.c_offsets.partition_point(|o| *o <= idx) - 1;
        let (mode, base) = &base_frames()[bi];
        let cut = (idx - s.c_offsets[bi]) as usize + 1;
        let mut f = base[..cut].to_vec();
        f.extend_from_slice(&successor(*mode));
        f.extend_from_slice(&successor(*mode));
        CodecSc {
            mode: *mode,
            stream: f,
            segs: vec![cut],
            note: format!("truncation sweep: frame of type {} ({} bytes) cut after {} bytes, then valid frames", base[1], base.len(), cut),
            trace: orig_idx % 16 == 5,
        }
    }
    fn sweep_note(&self, tier: Tier) -> Value {
        let s = sweeps(tier);
        json!({
            "header_pairs": {"what": "every (size byte, type byte) x {compressed, uncompressed} x body fill {0x00, 0xFF}, frame of the announced length followed by two valid frames", "cases": s.a, "exhaustive_over_this_subspace": true},
            "byte_substitution": {"what": "one zero-bodied frame per packet kind (and a second accepted size for variable-length kinds), every byte position x substitute values", "base_frames": base_frames().len(), "values_per_position": s.values, "cases": s.b, "exhaustive_over_this_subspace": s.values == 256},
            "truncation": {"what": "every cut point of every base frame, followed by valid frames", "cases": s.c, "exhaustive_over_this_subspace": true},
            "byte_pairs": {"what": "two coordinated bytes: every pair of body positions of every base frame up to the stated length x value pairs from the enumerant range", "max_frame_len": pair_max_len(tier), "values": pair_values(tier), "cases": s.e, "exhaustive_over_this_subspace": true},
            "holes": {"what": "every base frame with its body filled with one non-zero value and one byte replaced by a terminator / escape / high byte, at every body position", "fills": HOLE_FILLS, "holes": HOLE_VALUES, "cases": s.f, "exhaustive_over_this_subspace": true},
            "text_patterns": {"what": "each of a list of multi-byte patterns (text escapes, codepage markers, UTF-8 sequences, version syntax) written at every body position of every base frame", "patterns": PATTERNS.iter().map(|p| hex::enc(p)).collect::<Vec<_>>(), "cases": s.d, "exhaustive_over_this_subspace": true},
        })
    }

    fn generate(&self, rng: &mut Rng, _tier: Tier, stats: &mut GenStats) -> CodecSc {
        let mode = gen::pick_mode(rng);
        let mix = FrameMix::swarm(rng);
        let capn = if rng.chance(1, 10) { 60 } else { 8 };
        let n = rng.usize(1, capn);
        let mut stream = Vec::new();
        let mut notes = Vec::new();
        let mut ends = Vec::new();
        for _ in 0..n {
            // unfiltered: a frame the decoder panics on is what this property is after
            let _ = &stats;
            let f = gen::gen_frame_raw(rng, mode, &mix);
            stream.extend_from_slice(&f);
            ends.push(stream.len());
        }
        if rng.chance(1, 20) {
            // pure noise session
            let nn = rng.usize(1, 400);
            stream = rng.bytes(nn);
            notes.push("random bytes".to_string());
        }
        // faults
        let nf = if rng.chance(1, 5) { 0 } else { rng.small(16) as usize };
        for _ in 0..nf {
            if stream.is_empty() {
                break;
            }
            let i = rng.usize(0, stream.len() - 1);
            match rng.below(7) {
                0 => {
                    let bit = rng.below(8);
                    stream[i] ^= 1 << bit;
                    notes.push(format!("flip bit {} of byte {}", bit, i));
                },
                1 => {
                    let b = rng.byte();
                    stream[i] = b;
                    notes.push(format!("byte {} := {:#04x}", i, b));
                },
                2 => {
                    let _ = stream.remove(i);
                    notes.push(format!("drop byte {}", i));
                },
                3 => {
                    let b = stream[i];
                    stream.insert(i, b);
                    notes.push(format!("duplicate byte {}", i));
                },
                4 => {
                    let gl = rng.usize(1, 12);
                    let g = rng.bytes(gl);
                    let at = if rng.chance(1, 2) && !ends.is_empty() { (*rng.pick(&ends)).min(stream.len()) } else { i };
                    let _ = stream.splice(at..at, g.iter().copied());
                    notes.push(format!("insert {} garbage bytes at {}", g.len(), at));
                },
                5 => {
                    // corrupt a size byte specifically
                    let at = if ends.len() > 1 { ends[rng.usize(0, ends.len() - 2)].min(stream.len() - 1) } else { 0 };
                    let b = *rng.pick(&[0u8, 1, 2, 3, 255, 254]);
                    stream[at] = b;
                    notes.push(format!("size byte at {} := {}", at, b));
                },
                _ => {
                    stream.truncate(i.max(1));
                    notes.push(format!("truncate at {}", i.max(1)));
                },
            }
        }
        let mut segs = Vec::new();
        match rng.below(4) {
            0 => {},
            1 => {
                for _ in 0..stream.len() {
                    segs.push(1);
                }
            },
            _ => {
                let mut left = stream.len();
                while left > 0 {
                    let capk = if rng.chance(1, 2) { 6 } else { 300 };
                    let k = rng.usize(1, capk).min(left);
                    segs.push(k);
                    left -= k;
                }
            },
        }
        CodecSc {
            mode,
            stream,
            segs,
            note: notes.join("; "),
            trace: rng.chance(1, 8),
        }
    }

    fn execute(&self, sc: &CodecSc) -> RunReport {
        let mut rep = RunReport::default();
        let cr = crate::tracer::with_tracing(sc.trace, || run_codec(sc));
        if sc.trace {
            rep.probe("runs_with_trace_subscriber");
        }
        let mut h = Fnv::default();
        h.u64(cr.hash);
        rep.signature = cr.sig;
        rep.nontrivial = !sc.note.is_empty() || sc.segs.len() > 1;
        for p in cr.probes {
            rep.probe(p);
        }
        rep.probe_n("decoder_calls", cr.decodes);
        for x in cr.violations {
            rep.violations.push(crate::oracle::Violation {
                clause: x.clause,
                detail: format!("[codec/{:?}] {}", sc.mode, x.detail),
            });
        }
        // the same damaged stream through both real connections: must return, never panic
        for imp in [Imp::Blocking, Imp::Tokio] {
            let s = as_stream(sc, imp);
            let out = exec::run(&s);
            h.u64(trace_hash(&out));
            let an = analyze(&s, &out);
            if an.facts.probes.contains_key("framing_error_result") {
                rep.probe("connection_reports_framing_error");
            }
            for x in an.violations {
                if x.clause == "panic" || x.clause == "no_progress" {
                    rep.violations.push(crate::oracle::Violation {
                        clause: format!("connection.{}", x.clause),
                        detail: format!("[{:?}/{:?}] {}", imp, sc.mode, x.detail),
                    });
                }
            }
        }
        rep.trace_hash = h.finish();
        rep
    }

    fn trace(&self, sc: &CodecSc) -> Value {
        // replay the decoder calls verbosely
        let codec = Codec::new(sc.mode.to_mode());
        let mut buf = BytesMut::new();
        let mut log = Vec::new();
        let mut pos = 0;
        let mut segs = sc.segs.clone();
        segs.push(usize::MAX);
        'outer: for s in segs {
            if pos >= sc.stream.len() {
                break;
            }
            let n = s.min(sc.stream.len() - pos).max(1);
            buf.extend_from_slice(&sc.stream[pos..pos + n]);
            pos += n;
            log.push(json!({"deliver": n, "buffer_len": buf.len()}));
            for _ in 0..200 {
                let l = buf.len();
                let r = guarded(|| codec.decode(&mut buf));
                let cls = res_class(&r);
                log.push(json!({"decode": cls.chars().take(200).collect::<String>(), "buffer_before": l, "buffer_after": buf.len()}));
                if r.is_err() || cls == "need-more" || cls.starts_with("error:") {
                    if r.is_err() || cls.starts_with("error:") {
                        break 'outer;
                    }
                    break;
                }
            }
        }
        let mut conn = serde_json::Map::new();
        for imp in [Imp::Blocking, Imp::Tokio] {
            let _ = conn.insert(format!("{:?}", imp), crate::streamprop::trace_json(&as_stream(sc, imp)));
        }
        json!({"decoder_calls": log, "connections": conn})
    }

    fn shrink(&self, sc: &CodecSc) -> Vec<CodecSc> {
        let mut c = Vec::new();
        if !sc.segs.is_empty() {
            let mut s = sc.clone();
            s.segs.clear();
            c.push(s);
            let mut s = sc.clone();
            s.segs.truncate(sc.segs.len() / 2);
            c.push(s);
        }
        let n = sc.stream.len();
        // drop tails / heads (at any byte: the stream is hostile anyway)
        for k in [n / 2, n * 3 / 4, n.saturating_sub(4), n.saturating_sub(1)] {
            if k > 0 && k < n {
                let mut s = sc.clone();
                s.stream.truncate(k);
                c.push(s);
            }
        }
        let frames = crate::model::split_frames(sc.mode, &sc.stream);
        for f in frames.iter().take(60) {
            let mut s = sc.clone();
            let _ = s.stream.drain(f.start..f.start + f.len);
            if !s.stream.is_empty() {
                c.push(s);
            }
        }
        // zero bytes one at a time (short streams only)
        if n <= 64 {
            for i in 0..n {
                if sc.stream[i] != 0 {
                    let mut s = sc.clone();
                    s.stream[i] = 0;
                    c.push(s);
                }
            }
        }
        for s in c.iter_mut() {
            if s.note.len() > 0 && !s.note.starts_with("shrunk: ") {
                s.note = format!("shrunk: {}", s.note);
            }
        }
        c
    }

    fn repro_variants(&self, sc: &CodecSc) -> Vec<CodecSc> {
        if sc.trace {
            vec![]
        } else {
            let mut v = sc.clone();
            v.trace = true;
            vec![v]
        }
    }

    fn rule(&self) -> String {
        "Five enumerated fault spaces (every (size byte, type byte) header pair x both modes x two body fills; every byte position of one frame per packet kind x substitute values; every truncation point of those frames followed by valid frames; multi-byte text / dictionary patterns at every body position; every pair of body positions of short frames x enumerant-range value pairs) plus seeded multi-fault sessions (bit flips, substituted / dropped / duplicated bytes, inserted garbage, corrupted size bytes, truncation, pure noise) under random segmentation. Each case is delivered in segments into one long-lived receive buffer and the public decoder is called until it asks for more; the invariants of the property are evaluated after every call; the same stream then runs through both real connections (must return without panicking within the transport-call budget). One case in 8 (seeded) / 16 (sweeps) runs with a thread-scoped tracing subscriber that enables every span and event. Non-trivial = at least one fault or more than one segment; distinct by the sequence of (buffer situation, frame size class) per decoder call.".into()
    }
    fn assumptions(&self) -> Vec<String> {
        vec![
            "'for all byte strings' is sampled, apart from the three enumerated sub-spaces reported under coverage.sweep".into(),
            "built with debug-assertions and overflow-checks on, so arithmetic overflow in a decode path panics as it does for a debug-build user".into(),
            "for an impossible announced length (< 4) any error is accepted provided it removed either nothing or everything; what the connection does afterwards is unconstrained".into(),
        ]
    }
    fn components(&self) -> Value {
        json!({
            "real": ["insim::net::Codec::decode / Mode::decode_length", "Packet BinRead for all kinds", "insim::net::blocking_impl::Framed", "insim::net::tokio_impl::Framed"],
            "stub": ["link (byte-corrupting, scripted segments)", "byzantine peer (enumerated / seeded damaged frames)", "application (decode loop / drain)"],
        })
    }
    fn required(&self, _tier: Tier) -> Vec<&'static str> {
        vec![
            "impossible_length_seen",
            "partial_header_buffered",
            "decode_error_then_continue",
            "connection_reports_framing_error",
            "same_codec_other_buffer",
            "runs_with_trace_subscriber",
        ]
    }
}
