//! C05 — stream reassembly is independent of segmentation and session length.

use serde_json::{json, Value};

use crate::{
    driver::{Prop, RunReport, Tier},
    exec,
    gen::{self, FrameMix, GenStats, LinkCfg, WriteCfg},
    oracle::{analyze, trace_hash, v, Violation},
    rng::{Fnv, Rng},
    scenario::{AppOp, ErrKind, Imp, ReadEv, SizeMode, StreamScenario, WriteEv},
    streamprop::{shrink_stream, trace_json},
};

pub struct C05;

pub fn owns(clause: &str) -> bool {
    clause.starts_with("order.")
        || clause.starts_with("read.")
        || clause == "no_progress"
        || clause == "panic"
        || clause == "equiv.blocking_vs_tokio"
}

fn other(i: Imp) -> Imp {
    match i {
        Imp::Blocking => Imp::Tokio,
        Imp::Tokio => Imp::Blocking,
    }
}

/// the fixed list of short streams for the all-partitions sweep
fn sweep_streams(mode: SizeMode, tier: Tier) -> Vec<Vec<u8>> {
    let s = |n: usize| mode.size_byte(n);
    let ka = vec![s(4), 3, 0, 0];
    let ping = vec![s(4), 3, 7, 3];
    let small = vec![s(8), 4, 1, 0, 0x11, 0x22, 0x33, 0x44]; // SMALL, subtype none
    let unk = vec![s(4), 200, 9, 9];
    let badenum = vec![s(4), 3, 1, 99]; // TINY with unknown sub-type -> decode error
    let cat = |xs: &[&Vec<u8>]| xs.iter().flat_map(|x| x.iter().copied()).collect::<Vec<u8>>();
    let mut v = vec![
        cat(&[&ka]),
        cat(&[&ka, &ping]),
        cat(&[&badenum, &ka]),
    ];
    if tier == Tier::Thorough {
        v.push(cat(&[&ping, &ka, &ping]));
        v.push(cat(&[&small, &ka]));
        v.push(cat(&[&ka, &small]));
        v.push(cat(&[&unk, &ping, &ka]));
        v.push(cat(&[&badenum, &ping, &badenum]));
        if mode == SizeMode::Uncompressed {
            // odd lengths only exist in uncompressed mode
            let odd = vec![5u8, 3, 2, 3, 0xEE];
            v.push(cat(&[&odd, &ka, &odd]));
            v.push(cat(&[&ka, &odd, &ping]));
        } else {
            v.push(cat(&[&small, &ping]));
            v.push(cat(&[&ping, &small]));
        }
    }
    v
}

struct SweepIndex {
    entries: Vec<(SizeMode, Vec<u8>, u64)>, // cumulative start
    total: u64,
}

fn sweep_index(tier: Tier) -> SweepIndex {
    let mut entries = Vec::new();
    let mut total = 0u64;
    for mode in [SizeMode::Compressed, SizeMode::Uncompressed] {
        for s in sweep_streams(mode, tier) {
            let n = 1u64 << (s.len() - 1);
            entries.push((mode, s, total));
            total += n;
        }
    }
    SweepIndex { entries, total }
}

impl Prop for C05 {
    type Sc = StreamScenario;

    fn id(&self) -> &'static str {
        "C05"
    }
    fn level(&self) -> &'static str {
        "exploration"
    }
    fn runs(&self, tier: Tier) -> u64 {
        match tier {
            Tier::Quick => 20_000,
            Tier::Thorough => 1_000_000,
        }
    }
    fn sweep_len(&self, tier: Tier) -> u64 {
        sweep_index(tier).total
    }
    fn sweep_case(&self, tier: Tier, idx: u64) -> StreamScenario {
        let si = sweep_index(tier);
        let e = si
            .entries
            .iter()
            .rev()
            .find(|e| e.2 <= idx)
            .expect("sweep index");
        let mask = idx - e.2;
        let stream = e.1.clone();
        let mut reads = Vec::new();
        let mut run = 1usize;
        for i in 0..stream.len() - 1 {
            if mask >> i & 1 == 1 {
                reads.push(ReadEv::Data(run));
                run = 1;
            } else {
                run += 1;
            }
        }
        reads.push(ReadEv::Data(run));
        StreamScenario {
            imp: Imp::Blocking,
            mode: e.0,
            verify_version: true,
            explicit_gate: true,
            flushes: vec![],
            buffered: false,
            gate_calls: vec![],
            trace: false,
            via_builder: None,
            inbound: stream,
            reads,
            writes: vec![],
            ops: vec![AppOp::Drain { max: 8 }, AppOp::Read],
        }
    }
    fn sweep_note(&self, tier: Tier) -> Value {
        let si = sweep_index(tier);
        json!({
            "what": "every partition of each listed short stream into reads (2^(len-1) each), both implementations, both size modes",
            "exhaustive_over_this_subspace": true,
            "streams": si.entries.iter().map(|e| json!({"mode": format!("{:?}", e.0), "stream_hex": crate::scenario::hex::enc(&e.1), "partitions": 1u64 << (e.1.len() - 1)})).collect::<Vec<_>>(),
            "cases": si.total,
        })
    }

    fn generate(&self, rng: &mut Rng, _tier: Tier, stats: &mut GenStats) -> StreamScenario {
        let mode = gen::pick_mode(rng);
        let mix = FrameMix::swarm(rng);
        let target = gen::session_bytes_target(rng);
        let mut frames = gen::gen_frames_to_target(rng, mode, &mix, target, 4000, stats);
        let mut quiet_edge: Option<usize> = None;
        if rng.chance(1, 12) {
            let (fs, goal) = gen::boundary_frames(rng, mode, &mix, &frames, false, stats);
            frames = fs;
            if rng.chance(1, 2) {
                quiet_edge = Some(goal);
            }
        }
        let (inbound, ends) = gen::concat(&frames);
        let fault_free = rng.chance(1, 4);
        let cfg = if fault_free {
            LinkCfg::fault_free(rng)
        } else {
            LinkCfg::swarm(rng)
        };
        let mut inbound = inbound;
        // sometimes the stream simply ends inside a frame (peer died mid-send)
        if !fault_free && rng.chance(1, 10) {
            if rng.chance(1, 3) {
                // ... or after 1..3 stray bytes that could never start a frame: not enough to
                // tell, the stream has simply ended
                let first = match mode {
                    SizeMode::Compressed => 0u8,
                    SizeMode::Uncompressed => rng.below(4) as u8,
                };
                inbound.push(first);
                for _ in 0..rng.below(3) {
                    inbound.push(rng.byte());
                }
            } else {
                let extra = gen::gen_frame(rng, mode, &mix, stats);
                let cut = rng.usize(1, extra.len() - 1);
                inbound.extend_from_slice(&extra[..cut]);
            }
        }
        let mut reads = gen::gen_reads(rng, inbound.len(), &ends, &cfg);
        if let Some(edge) = quiet_edge {
            if inbound.len() == ends.last().copied().unwrap_or(0) {
                // the executor runs the scenario on both connection types: the blocking one skips
                // Pending / Stall, the async one sees them (read errors are transient on both)
                let blocking_style = rng.chance(1, 2);
                reads = gen::quiet_edge_reads(rng, blocking_style, &frames, edge);
            }
        }
        let errs = reads
            .iter()
            .filter(|e| matches!(e, ReadEv::Err(_)) || matches!(e, ReadEv::Stall(ms) if *ms >= 90_000))
            .count();
        let mut writes = gen::gen_writes(rng, 0, &WriteCfg::healthy());
        let mut ops = Vec::new();
        // a few explicit reads first (exercises per-call state), then drain, then one extra read
        for _ in 0..rng.below(3) {
            ops.push(AppOp::Read);
        }
        // the application also writes while it reads (a request, a fresh handshake to change
        // flags): frames already received must not be affected by that
        if rng.chance(1, 5) {
            let mut stats2 = GenStats::default();
            for _ in 0..rng.usize(1, 3) {
                if rng.chance(1, 2) {
                    let mut f = vec![0u8; 44];
                    f[0] = mode.size_byte(44);
                    f[1] = 1;
                    f[2] = rng.byte();
                    f[8] = 9;
                    f[28] = b'x';
                    if crate::model::ref_decode(mode, &f).is_pkt() {
                        ops.push(AppOp::Handshake(f));
                    }
                } else {
                    ops.push(AppOp::Write(gen::gen_out_frame(rng, mode, &mut stats2)));
                }
                ops.push(AppOp::Read);
            }
        }
        // ... over a write half that fails now and then (whole frames otherwise): a reply or a
        // request that could not be written is the application's to deal with, the frames
        // received are not. (The two connection types legitimately differ here — the blocking one
        // gives up a keep-alive whose reply failed — so these runs are not compared.)
        let mut n_werr = 0usize;
        if ops.iter().any(|o| matches!(o, AppOp::Write(_) | AppOp::Handshake(_))) && rng.chance(1, 3) {
            for _ in 0..rng.usize(1, 12) {
                if rng.chance(1, 3) {
                    writes.push(WriteEv::Err(*rng.pick(&[ErrKind::WouldBlock, ErrKind::TimedOut, ErrKind::Interrupted])));
                    n_werr += 1;
                } else {
                    writes.push(WriteEv::Accept(usize::MAX >> 1));
                }
            }
        }
        ops.push(AppOp::Drain {
            max: (frames.len() + errs + n_werr + 4) as u32,
        });
        ops.push(AppOp::Read);
        StreamScenario {
            imp: if rng.chance(1, 2) { Imp::Blocking } else { Imp::Tokio },
            mode,
            verify_version: rng.chance(1, 2),
            explicit_gate: true,
            flushes: vec![],
            buffered: false,
            gate_calls: vec![],
            trace: rng.chance(1, 8),
            via_builder: None,
            inbound,
            reads,
            writes,
            ops,
        }
    }

    fn execute(&self, sc: &StreamScenario) -> RunReport {
        let mut rep = RunReport::default();
        let mut h = Fnv::default();
        let mut frs: Vec<Vec<String>> = Vec::new();
        let mut clean = true;
        for imp in [sc.imp, other(sc.imp)] {
            let mut s = sc.clone();
            s.imp = imp;
            let out = exec::run(&s);
            let an = analyze(&s, &out);
            h.u64(trace_hash(&out));
            rep.sim_ms += out.sim_ms;
            rep.merge_maps(&an.facts.probes, &an.facts.faults);
            if imp == sc.imp {
                rep.signature = an.facts.signature;
                rep.nontrivial = an.facts.nontrivial;
            }
            for x in an.violations {
                if owns(&x.clause) {
                    rep.violations.push(Violation {
                        clause: x.clause,
                        detail: format!("[{:?}] {}", imp, x.detail),
                    });
                }
            }
            if an.facts.dead || an.facts.unmodelled {
                clean = false;
            }
            frs.push(an.facts.frame_results);
        }
        let write_faults = sc.writes.iter().any(|w| matches!(w, WriteEv::Err(_) | WriteEv::Zero));
        if write_faults {
            rep.probe("write_half_failing_runs");
        }
        if clean && !write_faults && rep.violations.is_empty() && frs[0] != frs[1] {
            let i = frs[0].iter().zip(frs[1].iter()).position(|(a, b)| a != b).unwrap_or(frs[0].len().min(frs[1].len()));
            rep.violations.push(v(
                "equiv.blocking_vs_tokio",
                format!("{:?} and {:?} connections differ at frame result {}: {:?} vs {:?}", sc.imp, other(sc.imp), i, frs[0].get(i), frs[1].get(i)),
            ));
        }
        rep.trace_hash = h.finish();
        rep
    }

    fn trace(&self, sc: &StreamScenario) -> Value {
        let mut o = sc.clone();
        o.imp = other(sc.imp);
        json!({ format!("{:?}", sc.imp): trace_json(sc), format!("{:?}", o.imp): trace_json(&o) })
    }

    fn shrink(&self, sc: &StreamScenario) -> Vec<StreamScenario> {
        shrink_stream(sc)
    }
    fn preludes(&self, sc: &StreamScenario) -> Vec<StreamScenario> {
        crate::streamprop::stream_preludes(sc)
    }

    fn repro_variants(&self, sc: &StreamScenario) -> Vec<StreamScenario> {
        // tracing keeps a process-wide callsite cache: a case found with `trace: false` while
        // another worker had a subscriber reproduces on its own only with `trace: true`
        if sc.trace {
            vec![]
        } else {
            let mut v = sc.clone();
            v.trace = true;
            vec![v]
        }
    }

    fn rule(&self) -> String {
        "Each case is one session: a frame list (library-decodable packets of all kinds, unknown type numbers, undecodable bodies, sizes 4..1020) cut into transport reads by a seeded link script (single bytes, header splits, coalesced frames, whole stream) with injected Interrupted/WouldBlock/TimedOut errors, Pending polls, stalls below and above 90 s of simulated time and early EOF; the application reads to Disconnected. The same scenario runs through the real blocking and tokio Framed. A case counts as non-trivial if at least one fault fired or at least one frame was split across reads; distinct = distinct 64-bit signature of the sequence of (event kind, offset of the segment start within its frame, log2 size, frames completed by the read, result class).".into()
    }
    fn assumptions(&self) -> Vec<String> {
        vec![
            "the packet for a frame is defined as Codec::decode of that frame alone in a fresh buffer (reference call); frames on which the reference call panics are excluded from this workload and counted as rejected_by_reference".into(),
            "where a transient transport error surfaces is not specified: returned I/O errors must be a sub-multiset of the injected ones".into(),
            "a Timeout result must be justified by >= 90 s of simulated time since the read started".into(),
            "the scripted transport never hands out more bytes than the slice it is offered and writes them before returning".into(),
        ]
    }
    fn components(&self) -> Value {
        json!({
            "real": ["insim::net::blocking_impl::Framed", "insim::net::tokio_impl::Framed", "insim::net::Codec / Mode", "Packet::maybe_pong", "Packet::maybe_verify_version", "tokio::time (paused clock, advanced only by the simulator)"],
            "stub": ["transport (SimStream: scripted Read/Write/AsyncRead/AsyncWrite)", "peer (byte script + capture)", "application task (scripted reads)", "executor (futures polled by hand, one poll per step)"],
        })
    }
    fn required(&self, tier: Tier) -> Vec<&'static str> {
        let mut r = vec![
            "split_in_header",
            "split_after_size_byte",
            "split_in_body",
            "three_or_more_frames_one_read",
            "single_byte_read",
            "offered_lt_1020",
            "buffer_reclaimed",
            "session_gt_buffer",
            "data_after_error",
            "transient_error_surfaced",
            "decode_error_result",
            "read_err_interrupted",
            "read_err_wouldblock",
            "read_err_timedout",
            "read_pending",
            "stall_lt_90s",
            "stall_ge_90s",
            "timeout_fired",
            "eof_inside_frame",
            "eof_at_frame_boundary",
            "write_and_keepalive_same_run",
        ];
        if tier == Tier::Thorough {
            r.push("session_gt_3x_buffer");
        }
        r
    }
}
