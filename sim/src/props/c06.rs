//! C06 — writes reach the transport complete, contiguous and in order.

use serde_json::Value;

use crate::{
    driver::{Prop, RunReport, Tier},
    gen::{self, FrameMix, GenStats, LinkCfg, SegStyle, WriteCfg},
    rng::Rng,
    scenario::{AppOp, Imp, StreamScenario, WriteEv},
    streamprop::{exec_and_filter, shrink_stream, stream_components, trace_json},
};

pub struct C06;

pub fn owns(clause: &str) -> bool {
    clause.starts_with("wire.") || clause.starts_with("write.") || clause == "panic" || clause == "no_progress"
}

impl Prop for C06 {
    type Sc = StreamScenario;

    fn id(&self) -> &'static str {
        "C06"
    }
    fn level(&self) -> &'static str {
        "exploration"
    }
    fn runs(&self, tier: Tier) -> u64 {
        match tier {
            Tier::Quick => 20_000,
            Tier::Thorough => 2_000_000,
        }
    }

    fn generate(&self, rng: &mut Rng, _tier: Tier, stats: &mut GenStats) -> StreamScenario {
        let mode = gen::pick_mode(rng);
        if rng.chance(1, 50) {
            // A schedule that the mix below reaches too rarely to rely on (it fell out of the
            // quick tier's reach twice when other generator changes shifted the random stream):
            // a keep-alive's reply gets 0..3 bytes out, the read is dropped there, and the next
            // write does not get through either (refused by the encoder, or dropped in turn);
            // the reply must still come out whole, before anything else.
            let mut inbound = gen::keepalive(mode);
            for _ in 0..rng.below(3) {
                inbound.extend_from_slice(&gen::tiny(mode, rng.byte() | 1, 3));
            }
            let mut writes = Vec::new();
            let k = rng.below(4) as usize;
            if k > 0 {
                writes.push(WriteEv::Accept(k));
            }
            for _ in 0..rng.usize(2, 5) {
                writes.push(WriteEv::Pending);
            }
            for _ in 0..rng.usize(0, 6) {
                writes.push(if rng.chance(1, 3) { WriteEv::Pending } else { WriteEv::Accept(rng.usize(1, 9)) });
            }
            let mut ops = vec![AppOp::ReadCancel { polls: rng.usize(1, 2) as u32 }];
            match (rng.below(2), gen::gen_unencodable_frame(rng, mode)) {
                (0, Some(u)) => ops.push(AppOp::Write(u)),
                _ => ops.push(AppOp::WriteCancel { frame: gen::gen_out_frame(rng, mode, stats), polls: rng.below(2) as u32 }),
            }
            if rng.chance(1, 2) {
                ops.push(AppOp::Read);
            }
            ops.push(AppOp::Write(gen::gen_out_frame(rng, mode, stats)));
            ops.push(AppOp::Drain { max: 8 });
            let n = inbound.len();
            return StreamScenario {
                imp: Imp::Tokio,
                mode,
                verify_version: false,
                explicit_gate: false,
                flushes: vec![],
                buffered: false,
                gate_calls: vec![],
                trace: rng.chance(1, 8),
                via_builder: None,
                inbound,
                reads: vec![crate::scenario::ReadEv::Data(n), crate::scenario::ReadEv::Eof],
                writes,
                ops,
            };
        }
        let imp = if rng.chance(1, 2) { Imp::Blocking } else { Imp::Tokio };
        // inbound: keep-alives (so that library-initiated replies are part of the write stream)
        // mixed with other frames; read side healthy.
        let mix = FrameMix {
            keepalive: if rng.chance(3, 4) { 40 } else { 0 },
            tiny_other: 20,
            ver: 0,
            known: 30,
            unknown_type: 2,
            random_body: 2,
            big: 1,
            ver_mostly_9: true,
        };
        let n_in = if rng.chance(1, 4) { 0 } else { rng.usize(1, 12) };
        let frames: Vec<Vec<u8>> = (0..n_in).map(|_| gen::gen_frame(rng, mode, &mix, stats)).collect();
        let (inbound, ends) = gen::concat(&frames);
        let mut lc = LinkCfg::fault_free(rng);
        if rng.chance(1, 2) {
            lc.style = SegStyle::FrameAligned;
        }
        let reads = gen::gen_reads(rng, inbound.len(), &ends, &lc);

        let cap_w = if rng.chance(1, 10) { 64 } else { 8 };
        let n_w = rng.usize(1, cap_w);
        let fault_free = rng.chance(1, 5);
        let wc = if fault_free { WriteCfg::healthy() } else { WriteCfg::swarm(rng) };
        // pool of acceptance events: enough for a byte-at-a-time transport on small sessions
        let pool = if rng.chance(1, 3) { rng.usize(0, 40) } else { rng.usize(20, 400) };
        let mut writes = gen::gen_writes(rng, pool, &wc);
        if !fault_free && rng.chance(1, 6) {
            // the classic: everything is accepted one byte at a time
            writes = (0..rng.usize(8, 600)).map(|_| WriteEv::Accept(1)).collect();
        }
        if !fault_free && rng.chance(1, 8) {
            // all but the last byte of whatever is offered
            let k = rng.usize(1, 3);
            writes = (0..rng.usize(4, 80)).flat_map(|_| [WriteEv::AllBut(k), WriteEv::Accept(usize::MAX >> 2)]).collect();
        }

        let mut ops = Vec::new();
        let mut reads_left = n_in;
        if rng.chance(1, 6) {
            // handshake first
            let isi = {
                let mut f = vec![0u8; 44];
                f[0] = mode.size_byte(44);
                f[1] = 1;
                f[2] = rng.byte();
                f[6] = rng.byte() & 0xFC;
                f[7] = rng.byte() & 0x0F;
                f[8] = 9;
                f[9] = b'!';
                f
            };
            if crate::model::ref_decode(mode, &isi).is_pkt() {
                ops.push(AppOp::Handshake(isi));
            }
        }
        // the select!-loop pattern (tokio): a read dropped while its reply is half written must
        // not let the next write tear that reply
        let cancels = imp == Imp::Tokio && !fault_free && rng.chance(1, 4);
        for _ in 0..n_w {
            while reads_left > 0 && rng.chance(1, 3) {
                if cancels && rng.chance(1, 2) {
                    ops.push(AppOp::ReadCancel {
                        polls: rng.below(4) as u32,
                    });
                    // ... and right behind the dropped read a write that does not get through
                    // either: the reply the read left unfinished must survive that too
                    if rng.chance(1, 3) {
                        if rng.chance(1, 2) {
                            if let Some(u) = gen::gen_unencodable_frame(rng, mode) {
                                ops.push(AppOp::Write(u));
                            }
                        } else {
                            ops.push(AppOp::WriteCancel {
                                frame: gen::gen_out_frame(rng, mode, stats),
                                polls: rng.below(3) as u32,
                            });
                        }
                    }
                } else {
                    ops.push(AppOp::Read);
                    reads_left -= 1;
                }
            }
            let f = gen::gen_out_frame(rng, mode, stats);
            if cancels && rng.chance(1, 4) {
                // an abandoned write (select! / timeout around write): if nothing of the frame got
                // out, nothing of it may turn up later
                ops.push(AppOp::WriteCancel {
                    frame: f,
                    polls: rng.below(4) as u32,
                });
            } else if rng.chance(1, 25) {
                // a packet the encoder refuses: the write fails and leaves nothing behind
                match gen::gen_unencodable_frame(rng, mode) {
                    Some(u) => ops.push(AppOp::Write(u)),
                    None => ops.push(AppOp::Write(f)),
                }
            } else {
                ops.push(AppOp::Write(f));
            }
        }
        if imp == Imp::Blocking && !fault_free && rng.chance(1, 3) {
            // EINTR: the blocking transport's "not ready, call again"
            let k = rng.usize(1, 6);
            for _ in 0..k {
                let at = rng.usize(0, writes.len());
                writes.insert(at, WriteEv::Err(crate::scenario::ErrKind::Interrupted));
            }
        }
        ops.push(AppOp::Drain {
            max: (n_in + 3) as u32,
        });
        // a transport that buffers until flushed (like the shipped WebSocket adaptor), with a
        // flush that is not always ready
        let buffered = imp == Imp::Tokio && rng.chance(1, 3);
        let flushes = if imp == Imp::Tokio && !fault_free && rng.chance(1, 2) {
            let k = rng.usize(1, 80);
            let pm = rng.range(100, 800);
            gen::gen_flushes(rng, k, pm)
        } else {
            vec![]
        };
        StreamScenario {
            imp,
            mode,
            verify_version: false,
            explicit_gate: true,
            flushes,
            buffered,
            gate_calls: vec![],
            trace: rng.chance(1, 8),
            via_builder: None,
            inbound,
            reads,
            writes,
            ops,
        }
    }

    fn execute(&self, sc: &StreamScenario) -> RunReport {
        let mut r = exec_and_filter(sc, &owns);
        // a run in which nothing was short or pending is the fault-free baseline
        if sc.ops.iter().any(|o| matches!(o, AppOp::Handshake(_))) {
            r.probe("handshake_write");
        }
        if sc.ops.iter().filter(|o| matches!(o, AppOp::Write(_))).count() >= 16 {
            r.probe("sixteen_or_more_writes");
        }
        if sc.ops.iter().any(|o| matches!(o, AppOp::Write(f) if f.len() >= 200)) {
            r.probe("write_ge_200_bytes");
        }
        match sc.imp {
            Imp::Blocking => r.probe("blocking_runs"),
            Imp::Tokio => r.probe("tokio_runs"),
        }
        r
    }

    fn trace(&self, sc: &StreamScenario) -> Value {
        trace_json(sc)
    }
    fn shrink(&self, sc: &StreamScenario) -> Vec<StreamScenario> {
        shrink_stream(sc)
    }
    fn preludes(&self, sc: &StreamScenario) -> Vec<StreamScenario> {
        crate::streamprop::stream_preludes(sc)
    }
    fn repro_variants(&self, sc: &StreamScenario) -> Vec<StreamScenario> {
        // tracing keeps a process-wide callsite cache: a case found with `trace: false` while
        // another worker had a subscriber reproduces on its own only with `trace: true`
        if sc.trace {
            vec![]
        } else {
            let mut v = sc.clone();
            v.trace = true;
            vec![v]
        }
    }

    fn rule(&self) -> String {
        "Each case is one session in which the application calls write(p) for a sequence of encoder-accepted packets (all kinds and sizes, never a TINY_NONE/0 so that library-initiated keep-alive replies stay attributable), interleaved with reads of inbound keep-alives; the write half of the scripted transport accepts k in 1..=offered bytes per call (biased to 1 and to large k) or answers Pending. Oracle: every byte the peer receives must continue either the frame of the write in flight or a keep-alive reply, frames never interleave, and a write that returns Ok has its whole frame on the wire. Non-trivial = at least one short write or Pending fired; distinct by trace signature.".into()
    }
    fn assumptions(&self) -> Vec<String> {
        vec![
            "expected bytes of write(p) = Codec::encode(p) (reference call)".into(),
            "the transport never accepts 0 bytes and never fails, except that the blocking one may answer Interrupted (EINTR: 'not ready, call again'), after which the frame must still go out whole".into(),
            "abandoned application writes (tokio): a write dropped before any byte of its frame was accepted must leave no trace; one dropped mid-frame has torn the wire by the application's own doing and ends the accountability of the outgoing side".into(),
            "a packet the encoder refuses must make write fail with nothing written".into(),
            "in a third of the tokio runs the transport buffers what it accepts until it is flushed (as the shipped WebSocket adaptor does) and its flush may answer Pending: a write that returns Ok must have flushed; the blocking connection is only run over an unbuffered transport".into(),
        ]
    }
    fn components(&self) -> Value {
        stream_components()
    }
    fn required(&self, _tier: Tier) -> Vec<&'static str> {
        vec![
            "short_write",
            "write_pending",
            "keepalive_returned",
            "write_and_keepalive_same_run",
            "handshake_write",
            "sixteen_or_more_writes",
            "write_ge_200_bytes",
            "blocking_runs",
            "tokio_runs",
            "read_cancelled",
            "flush_pending",
            "buffered_bytes_flushed",
            "write_cancelled",
            "write_cancelled_before_first_byte",
            "unencodable_packet_written",
            "write_err",
        ]
    }
}
