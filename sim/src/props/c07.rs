//! C07 — keep-alive requests are answered exactly once, and only they are.

use serde_json::{json, Value};

use crate::{
    driver::{Prop, RunReport, Tier},
    gen::{self, FrameMix, GenStats, LinkCfg, SegStyle},
    rng::Rng,
    scenario::{AppOp, Imp, ReadEv, SizeMode, StreamScenario},
    streamprop::{exec_and_filter, shrink_stream, stream_components, trace_json},
};

pub struct C07;

pub fn owns(clause: &str) -> bool {
    clause.starts_with("pong.")
        || clause == "wire.non_pong_during_read"
        || clause == "wire.torn_pong"
        || clause == "wire.torn_pong_at_end"
        || clause == "wire.partial_pong_at_return"
        || clause == "wire.unflushed"
}

fn sweep_dims(tier: Tier) -> (u64, u64) {
    // (number of sub-type values, configurations)
    match tier {
        Tier::Quick => (30, 2),     // 30 defined sub-types x 256 reqi x 2 modes, implementation alternating
        Tier::Thorough => (256, 4), // every sub-type byte x 256 reqi x 2 modes x 2 implementations
    }
}

impl Prop for C07 {
    type Sc = StreamScenario;

    fn id(&self) -> &'static str {
        "C07"
    }
    fn level(&self) -> &'static str {
        "exploration"
    }
    fn runs(&self, tier: Tier) -> u64 {
        match tier {
            Tier::Quick => 20_000,
            Tier::Thorough => 1_000_000,
        }
    }
    fn sweep_len(&self, tier: Tier) -> u64 {
        let (s, c) = sweep_dims(tier);
        s * 256 * c
    }
    fn sweep_case(&self, tier: Tier, idx: u64) -> StreamScenario {
        let (s, _c) = sweep_dims(tier);
        let subt = (idx % s) as u8;
        let reqi = ((idx / s) % 256) as u8;
        let cfg = idx / (s * 256);
        let mode = if cfg % 2 == 0 { SizeMode::Compressed } else { SizeMode::Uncompressed };
        let imp = match tier {
            Tier::Quick => {
                if (idx / 7) % 2 == 0 {
                    Imp::Blocking
                } else {
                    Imp::Tokio
                }
            },
            Tier::Thorough => {
                if cfg / 2 == 0 {
                    Imp::Blocking
                } else {
                    Imp::Tokio
                }
            },
        };
        // [neighbour, TINY(reqi, subt), neighbour]; neighbours alternate between a keep-alive and a
        // SMALL so that both "reply next to a reply" and "no reply at all" are covered
        let ka = gen::keepalive(mode);
        let small = vec![mode.size_byte(8), 4, 1, 0, 1, 2, 3, 4];
        let (pre, post) = match (idx / 3) % 4 {
            0 => (ka.clone(), small.clone()),
            1 => (small.clone(), ka.clone()),
            2 => (small.clone(), small.clone()),
            _ => (ka.clone(), ka.clone()),
        };
        let mut inbound = pre;
        inbound.extend_from_slice(&gen::tiny(mode, reqi, subt));
        inbound.extend_from_slice(&post);
        // segmentation varies deterministically with the index
        let reads = match idx % 5 {
            0 => vec![],
            1 => (0..inbound.len()).map(|_| ReadEv::Data(1)).collect(),
            2 => vec![ReadEv::Data(5), ReadEv::Data(2), ReadEv::Data(100)],
            3 => vec![ReadEv::Data(inbound.len() - 5), ReadEv::Pending, ReadEv::Data(4), ReadEv::Data(1)],
            _ => vec![ReadEv::Data(3), ReadEv::Pending, ReadEv::Data(3), ReadEv::Data(3), ReadEv::Data(100)],
        };
        StreamScenario {
            imp,
            mode,
            verify_version: false,
            explicit_gate: true,
            flushes: vec![],
            buffered: false,
            gate_calls: vec![],
            trace: idx % 16 == 3,
            via_builder: None,
            inbound,
            reads,
            writes: vec![],
            ops: vec![AppOp::Drain { max: 6 }],
        }
    }
    fn sweep_note(&self, tier: Tier) -> Value {
        let (s, c) = sweep_dims(tier);
        json!({
            "what": "a TINY frame with every (sub-type, request id) pair as the middle frame of a three-frame session; neighbours and segmentation vary with the index",
            "subtype_values": s, "request_ids": 256, "configurations": c,
            "exhaustive_over_this_subspace": true,
            "cases": s * 256 * c,
        })
    }

    fn generate(&self, rng: &mut Rng, _tier: Tier, stats: &mut GenStats) -> StreamScenario {
        let mode = gen::pick_mode(rng);
        let imp = if rng.chance(1, 2) { Imp::Blocking } else { Imp::Tokio };
        let mut mix = FrameMix::swarm(rng);
        mix.keepalive = if rng.chance(1, 8) { 0 } else { rng.range(5, 60) };
        mix.tiny_other = rng.range(5, 60);
        mix.ver = rng.range(1, 12);
        mix.ver_mostly_9 = rng.chance(1, 2);
        let target = match rng.below(10) {
            0 => rng.usize(2000, 9000),
            _ => rng.usize(4, 300),
        };
        let mut frames = gen::gen_frames_to_target(rng, mode, &mix, target, 400, stats);
        // one session in 12: a long one in which a frame boundary meets the end of the receive
        // buffer and the link goes quiet right there (keep-alives are what an idle link carries)
        let mut quiet_edge: Option<usize> = None;
        if rng.chance(1, 12) {
            let (fs, goal) = gen::boundary_frames(rng, mode, &mix, &frames, true, stats);
            frames = fs;
            quiet_edge = Some(goal);
        }
        let (inbound, ends) = gen::concat(&frames);
        let mut lc = if rng.chance(1, 4) { LinkCfg::fault_free(rng) } else { LinkCfg::swarm(rng) };
        // write half is healthy and read errors are C05's business: keep Pending/stalls only
        lc.err_pm = 0;
        lc.long_stall_pm = 0;
        lc.early_eof_pm = 0;
        if rng.chance(1, 3) {
            lc.style = SegStyle::WholeStream;
        }
        let mut reads = gen::gen_reads(rng, inbound.len(), &ends, &lc);
        if let Some(edge) = quiet_edge {
            if rng.chance(3, 4) {
                reads = gen::quiet_edge_reads(rng, imp == Imp::Blocking, &frames, edge);
            }
        }
        let mut ops = Vec::new();
        // write half: healthy / slow (short writes, Pending) / failing at reply boundaries
        let mut writes = vec![];
        let mut n_err = 0usize;
        match rng.below(8) {
            0 | 1 => {},
            2 => {
                // the transport refuses some replies outright (whole-frame accepts otherwise, so
                // every error lands at the start of a reply)
                let k = rng.usize(1, 40);
                for _ in 0..k {
                    if rng.chance(1, 12) {
                        writes.push(crate::scenario::WriteEv::Zero);
                        n_err += 1;
                    } else if rng.chance(1, 4) {
                        writes.push(crate::scenario::WriteEv::Err(*rng.pick(&[
                            crate::scenario::ErrKind::WouldBlock,
                            crate::scenario::ErrKind::TimedOut,
                            crate::scenario::ErrKind::BrokenPipe,
                            crate::scenario::ErrKind::Interrupted,
                        ])));
                        n_err += 1;
                    } else {
                        writes.push(crate::scenario::WriteEv::Accept(usize::MAX >> 1));
                    }
                }
            },
            _ => {
                let wc = gen::WriteCfg::swarm(rng);
                let k = rng.usize(4, 200);
                writes = gen::gen_writes(rng, k, &wc);
            },
        }
        // the select!-loop pattern: reads dropped while pending (tokio only)
        let cancels = imp == Imp::Tokio && rng.chance(1, 4);
        let pre = if cancels { rng.usize(1, 30) } else { rng.below(4) as usize };
        for _ in 0..pre {
            if cancels && rng.chance(1, 8) {
                ops.push(AppOp::WriteCancel {
                    frame: gen::gen_out_frame(rng, mode, stats),
                    polls: rng.below(3) as u32,
                });
            } else if cancels && rng.chance(2, 3) {
                ops.push(AppOp::ReadCancel {
                    polls: rng.below(5) as u32,
                });
            } else {
                ops.push(AppOp::Read);
            }
            // the application re-sends its ISI in mid-session (new flags, new interval) while
            // frames — keep-alives among them — are already waiting in the receive buffer
            if rng.chance(1, 10) {
                if let Some(f) = gen::isi_frame(rng, mode) {
                    ops.push(AppOp::Handshake(f));
                }
            }
        }
        ops.push(AppOp::Drain {
            max: (frames.len() + n_err + 3 + reads.iter().filter(|e| matches!(e, crate::scenario::ReadEv::Err(_)) || matches!(e, crate::scenario::ReadEv::Stall(ms) if *ms >= 90_000)).count()) as u32,
        });
        let buffered = imp == Imp::Tokio && rng.chance(1, 4);
        let flushes = if imp == Imp::Tokio && rng.chance(1, 3) {
            let k = rng.usize(1, 60);
            let pm = rng.range(100, 700);
            gen::gen_flushes(rng, k, pm)
        } else {
            vec![]
        };
        StreamScenario {
            imp,
            mode,
            // with the gate on, a rejected VER must not cause anything to be written either
            verify_version: rng.chance(1, 3),
            explicit_gate: true,
            flushes,
            buffered,
            gate_calls: vec![],
            trace: rng.chance(1, 8),
            via_builder: None,
            inbound,
            reads,
            writes,
            ops,
        }
    }

    fn execute(&self, sc: &StreamScenario) -> RunReport {
        let mut r = exec_and_filter(sc, &owns);
        match sc.imp {
            Imp::Blocking => r.probe("blocking_runs"),
            Imp::Tokio => r.probe("tokio_runs"),
        }
        // how many keep-alives sit in one transport read together with other frames
        r
    }
    fn trace(&self, sc: &StreamScenario) -> Value {
        trace_json(sc)
    }
    fn shrink(&self, sc: &StreamScenario) -> Vec<StreamScenario> {
        shrink_stream(sc)
    }
    fn preludes(&self, sc: &StreamScenario) -> Vec<StreamScenario> {
        crate::streamprop::stream_preludes(sc)
    }
    fn repro_variants(&self, sc: &StreamScenario) -> Vec<StreamScenario> {
        // tracing keeps a process-wide callsite cache: a case found with `trace: false` while
        // another worker had a subscriber reproduces on its own only with `trace: true`
        if sc.trace {
            vec![]
        } else {
            let mut v = sc.clone();
            v.trace = true;
            vec![v]
        }
    }

    fn rule(&self) -> String {
        "Each case is one read-only session whose inbound history mixes keep-alives (TINY_NONE, reqi 0) with TINY frames of every sub-type and request id and with every other packet kind, under seeded segmentation and Pending polls. Oracle over the captured outgoing bytes: only whole TINY_NONE/0 frames are ever written; a reply is never started before the link has delivered a keep-alive that justifies it; when the j-th keep-alive is handed to the caller at least j complete replies are on the wire; at the end replies == keep-alives. Non-trivial = a frame was split or a Pending fired; distinct by trace signature. The sweep covers every (sub-type, reqi) pair.".into()
    }
    fn assumptions(&self) -> Vec<String> {
        vec![
            "a frame is a keep-alive iff its reference decode is Tiny{subt: None, reqi: 0}".into(),
            "write half: healthy, slow (short writes / Pending) or refusing whole replies with an error; an error never lands inside a reply in this workload, and a keep-alive whose reply was refused may be dropped or delivered later but never delivered without its reply".into(),
        ]
    }
    fn components(&self) -> Value {
        stream_components()
    }
    fn required(&self, _tier: Tier) -> Vec<&'static str> {
        vec![
            "keepalive_returned",
            "three_or_more_frames_one_read",
            "split_in_header",
            "read_pending",
            "blocking_runs",
            "tokio_runs",
            "short_write",
            "write_pending",
            "write_err",
            "reply_write_error_surfaced",
            "read_cancelled",
            "cancel_in_pong_write_after_partial",
        ]
    }
}
