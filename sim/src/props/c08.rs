//! C08 — UDP datagrams are delivered intact for arbitrarily long sessions.
//!
//! Loopback world (DESIGN.md 4.2): the real blocking / tokio `UdpStream` adaptors inside the real
//! `Framed`, over kernel loopback sockets driven in lock-step from one thread.

use std::{net::UdpSocket, time::Duration};

use insim::net::Codec;
use serde::{Deserialize, Serialize};
use serde_json::{json, Value};

use crate::{
    driver::{Prop, RunReport, Tier},
    gen::{self, FrameMix, GenStats},
    link::AppRes,
    model::{expect_for, guarded, ref_decode_packet, ref_encode, split_frames, Expect, FrameKind},
    oracle::v,
    rng::{Fnv, Rng},
    scenario::{hex, Imp, SizeMode},
};

pub struct C08;

mod hexvec {
    use serde::{Deserialize, Deserializer, Serialize, Serializer};

    pub fn serialize<S: Serializer>(b: &Vec<Vec<u8>>, s: S) -> Result<S::Ok, S::Error> {
        let v: Vec<String> = b.iter().map(|x| crate::scenario::hex::enc(x)).collect();
        v.serialize(s)
    }
    pub fn deserialize<'de, D: Deserializer<'de>>(d: D) -> Result<Vec<Vec<u8>>, D::Error> {
        let v = Vec::<String>::deserialize(d)?;
        v.iter().map(|s| crate::scenario::hex::dec(s).map_err(serde::de::Error::custom)).collect()
    }
}

#[derive(Serialize, Deserialize, Clone, Debug, PartialEq, Eq)]
pub enum UStep {
    /// the peer sends these datagrams back to back; then the connection reads every frame in them
    Burst(#[serde(with = "hexvec")] Vec<Vec<u8>>),
    /// the application writes this packet (given as its canonical frame)
    Write(#[serde(with = "hex")] Vec<u8>),
    /// the peer crashes and restarts on the same port: while it is down the application writes
    /// `lost` (that datagram bounces and the kernel queues an ICMP error on the connection's
    /// socket), after the restart it writes `after[..]`. A write that returns Ok must arrive.
    Bounce {
        #[serde(with = "hex")]
        lost: Vec<u8>,
        #[serde(with = "crate::scenario::hexvec")]
        after: Vec<Vec<u8>>,
        /// just before crashing the peer sends one datagram [PING reqi 0x41, keep-alive]; the
        /// application reads the first packet before the crash and the buffered keep-alive while
        /// the peer is down (its reply meets the queued ICMP error)
        #[serde(default)]
        buffered_ka: bool,
    },
    /// the peer sends one datagram with several frames; the application reads the first, sends a
    /// fresh handshake (IS_ISI may be re-sent on a live connection to change flags), then reads
    /// the rest: nothing already received may be lost, and the ISI is one datagram
    HandshakeMidDatagram {
        #[serde(with = "hex")]
        dgram: Vec<u8>,
        #[serde(with = "hex")]
        isi: Vec<u8>,
    },
    /// last step of a session: the peer sends one datagram with several frames, the application
    /// reads only the first and then drops the connection (received-but-undelivered frames must
    /// die with it, not turn up in some later connection)
    Abandon {
        #[serde(with = "hex")]
        dgram: Vec<u8>,
    },
    /// the application starts a read while nothing is queued and drops it after its first poll
    /// (select! with a branch that is ready at once); later datagrams must be unaffected
    /// (tokio adaptor only)
    CancelledRead,
    /// some other socket on the peer's host (another port) sends this datagram to the
    /// connection's local address: it is not the peer's, so nothing of it may be delivered or
    /// answered, and later writes still go to the peer
    Stranger(#[serde(with = "hex")] Vec<u8>),
    /// the application reads while nothing is queued: the socket's (short) read timeout makes
    /// the adaptor's receive fail with a transient error; later datagrams must be unaffected
    /// (blocking adaptor only)
    IdleRead,
}

#[derive(Serialize, Deserialize, Clone, Debug, PartialEq, Eq)]
pub struct UdpSc {
    pub imp: Imp,
    pub mode: SizeMode,
    pub steps: Vec<UStep>,
    #[serde(default)]
    pub note: String,
    /// run with a tracing subscriber that enables every span and event
    #[serde(default)]
    pub trace: bool,
    /// the connection is made by the real `Builder` (`udp(peer, Some(local))`, `connect_*`), which
    /// binds and connects the socket itself and sends the ISI first; otherwise from a socket
    /// that the harness has bound and connected
    #[serde(default)]
    pub via_builder: bool,
}

const OP_TIMEOUT: Duration = Duration::from_secs(3);

#[derive(Debug, Clone, Serialize)]
enum UEv {
    PeerSent { bytes: usize },
    Read { res: AppRes },
    Wrote { res: AppRes },
    PeerGot { dgram: String },
    Idle { res: AppRes },
    /// outcome of a read dropped after one poll: None = it was pending (expected)
    Cancelled { completed: Option<AppRes> },
    StrangerSent,
    /// the Builder's connect failed or panicked
    ConnectFailed { why: String },
    /// a read returned Disconnected for an empty datagram and was repeated
    EmptyDatagramSurfaced,
    Handshook { res: AppRes },
    /// peer restarted; results of the write while it was down and of the writes afterwards,
    /// each with the datagrams the new peer socket received right after it
    Bounced {
        lost: AppRes,
        after: Vec<(AppRes, Vec<String>)>,
        /// buffered_ka only: result of the read before the crash, of the read while the peer was
        /// down, and of the reads after the restart up to the sentinel (with datagrams seen)
        pre: Option<AppRes>,
        down: Option<AppRes>,
        tail: Vec<(AppRes, Vec<String>)>,
    },
}

struct UdpRun {
    events: Vec<UEv>,
    harness_error: Option<String>,
}

fn drain_peer(peer: &UdpSocket, events: &mut Vec<UEv>) {
    let mut buf = [0u8; 4096];
    let _ = peer.set_nonblocking(true);
    while let Ok((n, _)) = peer.recv_from(&mut buf) {
        events.push(UEv::PeerGot { dgram: hex::enc(&buf[..n]) });
    }
    let _ = peer.set_nonblocking(false);
}

/// Sockets of this world are bound to explicit ports below the kernel's ephemeral range
/// (32768..), from a block private to the worker thread. A port that a scenario frees (peer
/// crash) can therefore never be handed by the kernel to another worker's `bind(:0)` while the
/// scenario is waiting to rebind it — which would cross-wire two runs.
fn bind_private() -> Option<UdpSocket> {
    use std::sync::atomic::{AtomicU16, Ordering};
    static NEXT_BLOCK: AtomicU16 = AtomicU16::new(0);
    thread_local! {
        static BLOCK: std::cell::Cell<Option<u16>> = const { std::cell::Cell::new(None) };
        static NEXT: std::cell::Cell<u16> = const { std::cell::Cell::new(0) };
    }
    let block = BLOCK.with(|b| {
        if b.get().is_none() {
            b.set(Some(NEXT_BLOCK.fetch_add(1, Ordering::Relaxed) % 40));
        }
        b.get().unwrap()
    });
    for _ in 0..300 {
        let k = NEXT.with(|n| {
            let v = n.get();
            n.set((v + 1) % 300);
            v
        });
        // (VERIF_PORT_BASE: lets two instances of the simulator run side by side)
        let base: u16 = std::env::var("VERIF_PORT_BASE").ok().and_then(|s| s.parse().ok()).unwrap_or(12_000);
        let port = base + block * 300 + k;
        if let Ok(s) = UdpSocket::bind(("127.0.0.1", port)) {
            return Some(s);
        }
    }
    None
}

fn rebind(addr: std::net::SocketAddr, to: std::net::SocketAddr) -> Option<UdpSocket> {
    for _ in 0..50 {
        if let Ok(s) = UdpSocket::bind(addr) {
            if s.connect(to).is_ok() {
                return Some(s);
            }
        }
        std::thread::sleep(Duration::from_millis(2));
    }
    None
}

fn take_dgrams(peer: &UdpSocket) -> Vec<String> {
    let mut v = Vec::new();
    let mut buf = [0u8; 4096];
    let _ = peer.set_nonblocking(true);
    while let Ok((n, _)) = peer.recv_from(&mut buf) {
        v.push(hex::enc(&buf[..n]));
    }
    let _ = peer.set_nonblocking(false);
    v
}

fn frames_in(mode: SizeMode, burst: &[Vec<u8>]) -> usize {
    burst
        .iter()
        .map(|d| split_frames(mode, d).iter().filter(|f| f.kind == FrameKind::Complete).count())
        .sum()
}

fn run_udp(sc: &UdpSc) -> UdpRun {
    crate::tracer::with_tracing(sc.trace, || run_udp_inner(sc))
}

fn run_udp_inner(sc: &UdpSc) -> UdpRun {
    let mut events = Vec::new();
    let mut peer = match bind_private() {
        Some(s) => s,
        None => return UdpRun { events, harness_error: Some("bind".into()) },
    };
    let conn = match bind_private() {
        Some(s) => s,
        None => return UdpRun { events, harness_error: Some("bind".into()) },
    };
    let peer_addr = peer.local_addr().unwrap();
    let conn_addr = conn.local_addr().unwrap();
    if conn.connect(peer_addr).is_err() || peer.connect(conn_addr).is_err() {
        return UdpRun { events, harness_error: Some("connect".into()) };
    }
    match sc.imp {
        Imp::Blocking => {
            let idle = sc.steps.iter().any(|s| matches!(s, UStep::IdleRead));
            // with IdleRead steps the socket gets a short timeout; reads with a datagram already
            // queued never wait, so this cannot affect them
            let _ = conn.set_read_timeout(Some(if idle { Duration::from_millis(25) } else { OP_TIMEOUT }));
            let _ = conn.set_write_timeout(Some(OP_TIMEOUT));
            let mut framed = if sc.via_builder {
                drop(conn);
                let b = insim::udp(peer_addr, Some(conn_addr)).mode(sc.mode.to_mode()).verify_version(false);
                match crate::model::guarded(|| b.connect_blocking()) {
                    Ok(Ok(f)) => {
                        // the ISI comes first; it is C18's business
                        let _ = peer.set_read_timeout(Some(OP_TIMEOUT));
                        let mut isi = [0u8; 512];
                        let _ = peer.recv(&mut isi);
                        f
                    },
                    Ok(Err(e)) => {
                        events.push(UEv::ConnectFailed { why: format!("{:?}", e) });
                        return UdpRun { events, harness_error: None };
                    },
                    Err(p) => {
                        events.push(UEv::ConnectFailed { why: format!("panic: {}", p) });
                        return UdpRun { events, harness_error: None };
                    },
                }
            } else {
                insim::net::blocking_impl::Framed::new(
                    Box::new(insim::net::blocking_impl::UdpStream::from(conn)),
                    Codec::new(sc.mode.to_mode()),
                )
            };
            for st in &sc.steps {
                match st {
                    UStep::Burst(ds) => {
                        for d in ds {
                            if peer.send(d).is_err() {
                                return UdpRun { events, harness_error: Some("peer send".into()) };
                            }
                            events.push(UEv::PeerSent { bytes: d.len() });
                        }
                        let mut empties = ds.iter().filter(|d| d.is_empty()).count();
                        let mut todo = frames_in(sc.mode, ds);
                        while todo > 0 || empties > 0 {
                            if todo == 0 {
                                // only empty datagrams left in the queue: they may or may not surface
                                break;
                            }
                            let r = guarded(|| framed.read());
                            let res = match r {
                                Err(p) => AppRes::Other(format!("panic: {}", p)),
                                Ok(Ok(p)) => AppRes::Pkt(format!("{:?}", p)),
                                Ok(Err(e)) => AppRes::from_err(&e),
                            };
                            if res == AppRes::Disconnected && empties > 0 {
                                empties -= 1;
                                events.push(UEv::EmptyDatagramSurfaced);
                                continue;
                            }
                            todo -= 1;
                            let stop = !matches!(res, AppRes::Pkt(_) | AppRes::Decode(_) | AppRes::IncompatibleVersion(_));
                            events.push(UEv::Read { res });
                            drain_peer(&peer, &mut events);
                            if stop {
                                return UdpRun { events, harness_error: None };
                            }
                        }
                    },
                    UStep::Bounce { lost, after, buffered_ka } => {
                        let rd = |framed: &mut insim::net::blocking_impl::Framed| match guarded(|| framed.read()) {
                            Err(p) => AppRes::Other(format!("panic: {}", p)),
                            Ok(Ok(p)) => AppRes::Pkt(format!("{:?}", p)),
                            Ok(Err(e)) => AppRes::from_err(&e),
                        };
                        let mut pre = None;
                        if *buffered_ka {
                            let mut d = gen::tiny(sc.mode, 0x41, 3);
                            d.extend_from_slice(&sc.mode.pong());
                            if peer.send(&d).is_err() {
                                return UdpRun { events, harness_error: Some("peer send".into()) };
                            }
                            pre = Some(rd(&mut framed));
                        }
                        // crash: the peer's socket goes away
                        let placeholder = match bind_private() {
                            Some(s) => s,
                            None => return UdpRun { events, harness_error: Some("bind".into()) },
                        };
                        drop(std::mem::replace(&mut peer, placeholder));
                        let to_res = |r: Result<insim::Result<()>, String>| match r {
                            Err(p) => AppRes::Other(format!("panic: {}", p)),
                            Ok(Ok(())) => AppRes::Done,
                            Ok(Err(e)) => AppRes::from_err(&e),
                        };
                        let lost_res = match ref_decode_packet(sc.mode, lost).1 {
                            Some(p) => to_res(guarded(|| framed.write(p))),
                            None => AppRes::Done,
                        };
                        std::thread::sleep(Duration::from_millis(3));
                        let down = if *buffered_ka { Some(rd(&mut framed)) } else { None };
                        // restart on the same port
                        match rebind(peer_addr, conn_addr) {
                            Some(s) => peer = s,
                            None => return UdpRun { events, harness_error: Some("rebind".into()) },
                        }
                        let mut results = Vec::new();
                        for f in after {
                            let Some(p) = ref_decode_packet(sc.mode, f).1 else { continue };
                            let r = to_res(guarded(|| framed.write(p)));
                            results.push((r, take_dgrams(&peer)));
                        }
                        let mut tail = Vec::new();
                        if *buffered_ka {
                            // sentinel from the restarted peer: whatever is still owed comes before it
                            let _ = peer.send(&gen::tiny(sc.mode, 0x42, 3));
                            for _ in 0..3 {
                                let r = rd(&mut framed);
                                let stop = matches!(&r, AppRes::Pkt(d) if d.contains("RequestId(66)")) || !matches!(r, AppRes::Pkt(_));
                                tail.push((r, take_dgrams(&peer)));
                                if stop {
                                    break;
                                }
                            }
                        }
                        events.push(UEv::Bounced { lost: lost_res, after: results, pre, down, tail });
                    },
                    UStep::CancelledRead => {},
                    UStep::Stranger(d) => {
                        if let Some(s) = bind_private() {
                            let _ = s.send_to(d, conn_addr);
                            events.push(UEv::StrangerSent);
                        }
                    },
                    UStep::Abandon { dgram } => {
                        if peer.send(dgram).is_err() {
                            return UdpRun { events, harness_error: Some("peer send".into()) };
                        }
                        events.push(UEv::PeerSent { bytes: dgram.len() });
                        let r = guarded(|| framed.read());
                        let res = match r {
                            Err(p) => AppRes::Other(format!("panic: {}", p)),
                            Ok(Ok(p)) => AppRes::Pkt(format!("{:?}", p)),
                            Ok(Err(e)) => AppRes::from_err(&e),
                        };
                        events.push(UEv::Read { res });
                        break;
                    },
                    UStep::HandshakeMidDatagram { dgram, isi } => {
                        if peer.send(dgram).is_err() {
                            return UdpRun { events, harness_error: Some("peer send".into()) };
                        }
                        events.push(UEv::PeerSent { bytes: dgram.len() });
                        let n = frames_in(sc.mode, std::slice::from_ref(dgram));
                        for k in 0..n {
                            if k == 1 {
                                let res = match ref_decode_packet(sc.mode, isi).1 {
                                    Some(insim::Packet::Isi(i)) => match guarded(|| framed.handshake(i)) {
                                        Err(p) => AppRes::Other(format!("panic: {}", p)),
                                        Ok(Ok(())) => AppRes::Done,
                                        Ok(Err(e)) => AppRes::from_err(&e),
                                    },
                                    _ => AppRes::Done,
                                };
                                events.push(UEv::Handshook { res });
                                drain_peer(&peer, &mut events);
                            }
                            let r = guarded(|| framed.read());
                            let res = match r {
                                Err(p) => AppRes::Other(format!("panic: {}", p)),
                                Ok(Ok(p)) => AppRes::Pkt(format!("{:?}", p)),
                                Ok(Err(e)) => AppRes::from_err(&e),
                            };
                            let stop = !matches!(res, AppRes::Pkt(_) | AppRes::Decode(_) | AppRes::IncompatibleVersion(_));
                            events.push(UEv::Read { res });
                            drain_peer(&peer, &mut events);
                            if stop {
                                return UdpRun { events, harness_error: None };
                            }
                        }
                    },
                    UStep::IdleRead => {
                        let r = guarded(|| framed.read());
                        let res = match r {
                            Err(p) => AppRes::Other(format!("panic: {}", p)),
                            Ok(Ok(p)) => AppRes::Pkt(format!("{:?}", p)),
                            Ok(Err(e)) => AppRes::from_err(&e),
                        };
                        events.push(UEv::Idle { res });
                        drain_peer(&peer, &mut events);
                    },
                    UStep::Write(f) => {
                        let Some(p) = ref_decode_packet(sc.mode, f).1 else { continue };
                        let r = guarded(|| framed.write(p));
                        let res = match r {
                            Err(p) => AppRes::Other(format!("panic: {}", p)),
                            Ok(Ok(())) => AppRes::Done,
                            Ok(Err(e)) => AppRes::from_err(&e),
                        };
                        events.push(UEv::Wrote { res });
                        drain_peer(&peer, &mut events);
                    },
                }
            }
        },
        Imp::Tokio => {
            let rt = tokio::runtime::Builder::new_current_thread().enable_all().build().unwrap();
            crate::model::enter_guard();
            let r: Result<Result<(), String>, Box<dyn std::any::Any + Send>> = std::panic::catch_unwind(std::panic::AssertUnwindSafe(|| rt.block_on(async {
                let mut framed = if sc.via_builder {
                    drop(conn);
                    let b = insim::udp(peer_addr, Some(conn_addr)).mode(sc.mode.to_mode()).verify_version(false);
                    match b.connect_async().await {
                        Ok(f) => {
                            let _ = peer.set_read_timeout(Some(OP_TIMEOUT));
                            let mut isi = [0u8; 512];
                            let _ = peer.recv(&mut isi);
                            f
                        },
                        Err(e) => {
                            events.push(UEv::ConnectFailed { why: format!("{:?}", e) });
                            return Ok(());
                        },
                    }
                } else {
                    conn.set_nonblocking(true).map_err(|e| e.to_string())?;
                    let sock = tokio::net::UdpSocket::from_std(conn).map_err(|e| e.to_string())?;
                    insim::net::tokio_impl::Framed::new(
                        Box::new(insim::net::tokio_impl::UdpStream::from(sock)),
                        Codec::new(sc.mode.to_mode()),
                    )
                };
                for st in &sc.steps {
                    match st {
                        UStep::Burst(ds) => {
                            for d in ds {
                                peer.send(d).map_err(|e| e.to_string())?;
                                events.push(UEv::PeerSent { bytes: d.len() });
                            }
                            let mut empties = ds.iter().filter(|d| d.is_empty()).count();
                            let mut todo = frames_in(sc.mode, ds);
                            while todo > 0 {
                                let res = match tokio::time::timeout(OP_TIMEOUT, framed.read()).await {
                                    Err(_) => AppRes::Other("no result within the 3 s guard although the peer's datagrams were already queued".into()),
                                    Ok(Ok(p)) => AppRes::Pkt(format!("{:?}", p)),
                                    Ok(Err(e)) => AppRes::from_err(&e),
                                };
                                if res == AppRes::Disconnected && empties > 0 {
                                    empties -= 1;
                                    events.push(UEv::EmptyDatagramSurfaced);
                                    continue;
                                }
                                todo -= 1;
                                let stop = !matches!(res, AppRes::Pkt(_) | AppRes::Decode(_) | AppRes::IncompatibleVersion(_));
                                events.push(UEv::Read { res });
                                drain_peer(&peer, &mut events);
                                if stop {
                                    return Ok(());
                                }
                            }
                        },
                        UStep::HandshakeMidDatagram { dgram, isi } => {
                            peer.send(dgram).map_err(|e| e.to_string())?;
                            events.push(UEv::PeerSent { bytes: dgram.len() });
                            let n = frames_in(sc.mode, std::slice::from_ref(dgram));
                            for k in 0..n {
                                if k == 1 {
                                    let res = match ref_decode_packet(sc.mode, isi).1 {
                                        Some(insim::Packet::Isi(i)) => match tokio::time::timeout(OP_TIMEOUT, framed.handshake(i, OP_TIMEOUT)).await {
                                            Err(_) => AppRes::Other("handshake did not finish".into()),
                                            Ok(Ok(())) => AppRes::Done,
                                            Ok(Err(e)) => AppRes::from_err(&e),
                                        },
                                        _ => AppRes::Done,
                                    };
                                    events.push(UEv::Handshook { res });
                                    drain_peer(&peer, &mut events);
                                }
                                let res = match tokio::time::timeout(OP_TIMEOUT, framed.read()).await {
                                    Err(_) => AppRes::Other("no result within the 3 s guard although the peer's datagrams were already queued".into()),
                                    Ok(Ok(p)) => AppRes::Pkt(format!("{:?}", p)),
                                    Ok(Err(e)) => AppRes::from_err(&e),
                                };
                                let stop = !matches!(res, AppRes::Pkt(_) | AppRes::Decode(_) | AppRes::IncompatibleVersion(_));
                                events.push(UEv::Read { res });
                                drain_peer(&peer, &mut events);
                                if stop {
                                    return Ok(());
                                }
                            }
                        },
                        UStep::Bounce { lost, after, buffered_ka } => {
                            let mut pre = None;
                            if *buffered_ka {
                                let mut d = gen::tiny(sc.mode, 0x41, 3);
                                d.extend_from_slice(&sc.mode.pong());
                                peer.send(&d).map_err(|e| e.to_string())?;
                                pre = Some(match tokio::time::timeout(OP_TIMEOUT, framed.read()).await {
                                    Err(_) => AppRes::Other("no result".into()),
                                    Ok(Ok(p)) => AppRes::Pkt(format!("{:?}", p)),
                                    Ok(Err(e)) => AppRes::from_err(&e),
                                });
                            }
                            let placeholder = bind_private().ok_or_else(|| "bind".to_string())?;
                            drop(std::mem::replace(&mut peer, placeholder));
                            let lost_res = match ref_decode_packet(sc.mode, lost).1 {
                                Some(p) => match tokio::time::timeout(OP_TIMEOUT, framed.write(p)).await {
                                    Err(_) => AppRes::Other("write did not finish".into()),
                                    Ok(Ok(())) => AppRes::Done,
                                    Ok(Err(e)) => AppRes::from_err(&e),
                                },
                                None => AppRes::Done,
                            };
                            tokio::time::sleep(Duration::from_millis(3)).await;
                            let down = if *buffered_ka {
                                Some(match tokio::time::timeout(OP_TIMEOUT, framed.read()).await {
                                    Err(_) => AppRes::Other("no result".into()),
                                    Ok(Ok(p)) => AppRes::Pkt(format!("{:?}", p)),
                                    Ok(Err(e)) => AppRes::from_err(&e),
                                })
                            } else {
                                None
                            };
                            peer = rebind(peer_addr, conn_addr).ok_or_else(|| "rebind".to_string())?;
                            let mut results = Vec::new();
                            for f in after {
                                let Some(p) = ref_decode_packet(sc.mode, f).1 else { continue };
                                let r = match tokio::time::timeout(OP_TIMEOUT, framed.write(p)).await {
                                    Err(_) => AppRes::Other("write did not finish".into()),
                                    Ok(Ok(())) => AppRes::Done,
                                    Ok(Err(e)) => AppRes::from_err(&e),
                                };
                                results.push((r, take_dgrams(&peer)));
                            }
                            let mut tail = Vec::new();
                            if *buffered_ka {
                                let _ = peer.send(&gen::tiny(sc.mode, 0x42, 3));
                                for _ in 0..3 {
                                    let r = match tokio::time::timeout(OP_TIMEOUT, framed.read()).await {
                                        Err(_) => AppRes::Other("no result".into()),
                                        Ok(Ok(p)) => AppRes::Pkt(format!("{:?}", p)),
                                        Ok(Err(e)) => AppRes::from_err(&e),
                                    };
                                    let stop = matches!(&r, AppRes::Pkt(d) if d.contains("RequestId(66)")) || !matches!(r, AppRes::Pkt(_));
                                    tail.push((r, take_dgrams(&peer)));
                                    if stop {
                                        break;
                                    }
                                }
                            }
                            events.push(UEv::Bounced { lost: lost_res, after: results, pre, down, tail });
                        },
                        UStep::IdleRead => {},
                        UStep::Abandon { dgram } => {
                            peer.send(dgram).map_err(|e| e.to_string())?;
                            events.push(UEv::PeerSent { bytes: dgram.len() });
                            let res = match tokio::time::timeout(OP_TIMEOUT, framed.read()).await {
                                Err(_) => AppRes::Other("no result within the 3 s guard although the peer's datagrams were already queued".into()),
                                Ok(Ok(p)) => AppRes::Pkt(format!("{:?}", p)),
                                Ok(Err(e)) => AppRes::from_err(&e),
                            };
                            events.push(UEv::Read { res });
                            break;
                        },
                        UStep::Stranger(d) => {
                            if let Some(s) = bind_private() {
                                let _ = s.send_to(d, conn_addr);
                                events.push(UEv::StrangerSent);
                            }
                        },
                        UStep::CancelledRead => {
                            let completed = match tokio::time::timeout(Duration::ZERO, framed.read()).await {
                                Err(_) => None,
                                Ok(Ok(p)) => Some(AppRes::Pkt(format!("{:?}", p))),
                                Ok(Err(e)) => Some(AppRes::from_err(&e)),
                            };
                            events.push(UEv::Cancelled { completed });
                            drain_peer(&peer, &mut events);
                        },
                        UStep::Write(f) => {
                            let Some(p) = ref_decode_packet(sc.mode, f).1 else { continue };
                            let res = match tokio::time::timeout(OP_TIMEOUT, framed.write(p)).await {
                                Err(_) => AppRes::Other("write did not finish within the 3 s guard".into()),
                                Ok(Ok(())) => AppRes::Done,
                                Ok(Err(e)) => AppRes::from_err(&e),
                            };
                            events.push(UEv::Wrote { res });
                            drain_peer(&peer, &mut events);
                        },
                    }
                }
                Ok(())
            })));
            crate::model::leave_guard();
            match r {
                Err(_) => {
                    // the library panicked inside an async call: report it as a failed read
                    events.push(UEv::Read { res: AppRes::Other(format!("panic: {}", crate::model::take_panic_msg())) });
                },
                Ok(Err(e)) => return UdpRun { events, harness_error: Some(e) },
                Ok(Ok(())) => {},
            }
        },
    }
    UdpRun { events, harness_error: None }
}

fn render(e: &Expect) -> String {
    match e {
        Expect::Pkt { dbg, .. } => format!("pkt:{}", dbg),
        Expect::Decode => "decode-error".into(),
        Expect::BadVersion(v) => format!("badver:{}", v),
        Expect::Unmodelled => "unmodelled".into(),
    }
}

fn render_res(r: &AppRes) -> String {
    match r {
        AppRes::Pkt(d) => format!("pkt:{}", d),
        AppRes::Decode(_) => "decode-error".into(),
        AppRes::IncompatibleVersion(v) => format!("badver:{}", v),
        other => format!("{:?}", other),
    }
}

fn datagram(rng: &mut Rng, mode: SizeMode, mix: &FrameMix, stats: &mut GenStats, max_frames: usize, target: Option<usize>) -> Vec<u8> {
    let mut d = Vec::new();
    let n = rng.usize(1, max_frames.max(1));
    for _ in 0..n {
        let f = gen::gen_frame(rng, mode, mix, stats);
        if d.len() + f.len() > 1020 {
            break;
        }
        d.extend_from_slice(&f);
        if let Some(t) = target {
            if d.len() >= t {
                break;
            }
        }
    }
    if d.is_empty() {
        d = gen::tiny(mode, 1, 3);
    }
    d
}

impl Prop for C08 {
    type Sc = UdpSc;

    fn id(&self) -> &'static str {
        "C08"
    }
    fn level(&self) -> &'static str {
        "exploration"
    }
    fn runs(&self, tier: Tier) -> u64 {
        match tier {
            Tier::Quick => 600,
            Tier::Thorough => 30_000,
        }
    }
    fn max_workers(&self) -> usize {
        8
    }

    fn generate(&self, rng: &mut Rng, _tier: Tier, stats: &mut GenStats) -> UdpSc {
        let mode = gen::pick_mode(rng);
        let imp = if rng.chance(1, 2) { Imp::Blocking } else { Imp::Tokio };
        let mut mix = FrameMix::swarm(rng);
        mix.ver = 0;
        // cumulative inbound traffic: mostly beyond one receive buffer, up to ~10x
        let total = match rng.below(10) {
            0 => rng.usize(4, 3000),
            1..=6 => rng.usize(6_200, 20_000),
            _ => rng.usize(20_000, 62_000),
        };
        // datagram shape for this run: fixed-size repeating (the way LFS sends MCI/NLP), or mixed
        let fixed: Option<Vec<u8>> = if rng.chance(1, 2) {
            let m = if rng.chance(1, 2) { 1 } else { rng.usize(1, 12) };
            let t = if rng.chance(1, 2) { Some(rng.usize(8, mode.max_len().min(1020))) } else { None };
            Some(datagram(rng, mode, &mix, stats, m, t))
        } else {
            None
        };
        let max_frames = *rng.pick(&[1usize, 1, 2, 4, 16, 64]);
        let idle_reads = rng.chance(1, 3);
        let bounces = rng.chance(1, 3);
        let empties = rng.chance(1, 3);
        let cancels = rng.chance(1, 2);
        let strangers = rng.chance(1, 3);
        // (the Builder gives the blocking socket a 90 s read timeout: no idle reads there)
        let via_builder = rng.chance(1, 4) && !(imp == Imp::Blocking && idle_reads);
        let mut steps = Vec::new();
        let mut sent = 0usize;
        let mut notes = Vec::new();
        let mut prev: Option<Vec<u8>> = None;
        while sent < total && steps.len() < 4000 {
            let burst_n = rng.small(8) as usize;
            let mut burst = Vec::new();
            for _ in 0..burst_n {
                let d = match &fixed {
                    Some(f) if rng.chance(15, 16) => f.clone(),
                    _ => datagram(rng, mode, &mix, stats, max_frames, None),
                };
                // an empty datagram (a probe, a misbehaving relay): it may surface as one
                // Disconnected, but must not cost any later packet
                let put_empty = empties && rng.chance(1, 30);
                // network faults, applied by the peer script: loss, duplication, reordering
                match rng.below(40) {
                    0 => {
                        notes.push("loss");
                        continue;
                    },
                    1 => {
                        notes.push("dup");
                        if put_empty {
                            notes.push("empty");
                            burst.push(Vec::new());
                        }
                        burst.push(d.clone());
                        burst.push(d.clone());
                        sent += 2 * d.len();
                    },
                    2 if prev.is_some() => {
                        notes.push("reorder");
                        if put_empty {
                            notes.push("empty");
                            burst.push(Vec::new());
                        }
                        burst.push(d.clone());
                        burst.push(prev.clone().unwrap());
                        sent += d.len() + prev.as_ref().unwrap().len();
                    },
                    _ => {
                        sent += d.len();
                        // always followed by a real datagram of the same burst, so that it is
                        // consumed before the burst's reads are over
                        if put_empty {
                            notes.push("empty");
                            burst.push(Vec::new());
                        }
                        burst.push(d.clone());
                    },
                }
                prev = Some(d);
            }
            if !burst.is_empty() {
                steps.push(UStep::Burst(burst));
            }
            if rng.chance(1, 12) {
                steps.push(UStep::Write(gen::gen_out_frame(rng, mode, stats)));
            }
            if idle_reads && imp == Imp::Blocking && rng.chance(1, 30) {
                steps.push(UStep::IdleRead);
            }
            if imp == Imp::Tokio && cancels && rng.chance(1, 6) {
                steps.push(UStep::CancelledRead);
            }
            if strangers && rng.chance(1, 8) {
                let mut d = gen::tiny(mode, 0x63, 3);
                if rng.chance(1, 3) {
                    d.extend_from_slice(&gen::keepalive(mode));
                }
                steps.push(UStep::Stranger(d));
            }
            if rng.chance(1, 50) {
                // several non-keep-alive frames in one datagram, a handshake after the first
                let nomix = FrameMix { keepalive: 0, ver: 0, ..mix.clone() };
                let mut d = Vec::new();
                for _ in 0..rng.usize(2, 5) {
                    let f = gen::gen_frame(rng, mode, &nomix, stats);
                    if d.len() + f.len() > 1020 {
                        break;
                    }
                    if matches!(expect_for(mode, false, &f), Expect::Pkt { keepalive: true, .. }) {
                        continue;
                    }
                    d.extend_from_slice(&f);
                }
                let mut isi = vec![0u8; 44];
                isi[0] = mode.size_byte(44);
                isi[1] = 1;
                isi[2] = rng.byte();
                isi[6] = rng.byte() & 0xFC;
                isi[7] = rng.byte() & 0x0F;
                isi[8] = 9;
                isi[28] = b'x';
                if crate::model::ref_decode(mode, &isi).is_pkt() && split_frames(mode, &d).len() >= 2 {
                    steps.push(UStep::HandshakeMidDatagram { dgram: d, isi });
                }
            }
            if bounces && rng.chance(1, 40) {
                steps.push(UStep::Bounce {
                    lost: gen::gen_out_frame(rng, mode, stats),
                    after: (0..3).map(|_| gen::gen_out_frame(rng, mode, stats)).collect(),
                    buffered_ka: rng.chance(1, 2),
                });
            }
            if rng.chance(1, 60) {
                if let Some(u) = gen::gen_unencodable_frame(rng, mode) {
                    steps.push(UStep::Write(u));
                    steps.push(UStep::Write(gen::gen_out_frame(rng, mode, stats)));
                }
            }
        }
        // sentinel: anything duplicated or left over shows up before it
        steps.push(UStep::Burst(vec![gen::tiny(mode, 0xEE, 3)]));
        if rng.chance(1, 8) {
            let mut d = Vec::new();
            for k in 0..rng.usize(2, 6) {
                d.extend_from_slice(&gen::tiny(mode, 0x50 + k as u8, 3));
            }
            steps.push(UStep::Abandon { dgram: d });
        }
        notes.sort();
        notes.dedup();
        UdpSc {
            imp,
            mode,
            steps,
            note: notes.join(","),
            trace: rng.chance(1, 8),
            via_builder,
        }
    }

    fn execute(&self, sc: &UdpSc) -> RunReport {
        let mut rep = RunReport::default();
        let run = run_udp(sc);
        if let Some(e) = run.harness_error {
            rep.probe("harness_socket_error");
            rep.trace_hash = 0;
            let _ = e;
            return rep;
        }
        let tag = format!("[{:?}/{:?}{}]", sc.imp, sc.mode, if sc.via_builder { "/via Builder" } else { "" });
        let pong = hex::enc(&sc.mode.pong());
        if sc.via_builder {
            rep.probe("connection_made_by_builder");
        }
        // whatever the peer receives from the connection — a written packet, a reply, an ISI — is
        // one datagram holding exactly one frame: its length is what its size byte announces
        for e in &run.events {
            let ds: Vec<&String> = match e {
                UEv::PeerGot { dgram } => vec![dgram],
                _ => vec![],
            };
            for d in ds {
                if let Ok(b) = hex::dec(d) {
                    if !b.is_empty() && sc.mode.announced(b[0]) != b.len() {
                        rep.violations.push(v(
                            "udp.datagram_not_one_frame",
                            format!("{} the peer received a datagram of {} bytes whose size byte announces {}: {}", tag, b.len(), sc.mode.announced(b[0]), d.chars().take(80).collect::<String>()),
                        ));
                        rep.trace_hash = 2;
                        return rep;
                    }
                }
            }
        }
        if let Some(UEv::ConnectFailed { why }) = run.events.first() {
            rep.violations.push(v("udp.connect_failed", format!("{} Builder::udp(peer, Some(local)).connect failed against a bound loopback peer: {}", tag, why)));
            rep.trace_hash = 1;
            return rep;
        }
        // expected sequence
        let mut expected_reads: Vec<String> = Vec::new();
        let mut h = Fnv::default();
        let mut sig = Fnv::default();
        // model of the connection buffer's spare capacity, only to measure reach
        let mut spare = 6120usize;
        let mut total_in = 0usize;
        let mut ev_i = 0usize;
        let evs = &run.events;
        let mut stop = false;
        let next = |i: &mut usize| -> Option<&UEv> {
            let e = evs.get(*i);
            *i += 1;
            e
        };
        'steps: for st in &sc.steps {
            match st {
                UStep::Burst(ds) => {
                    for d in ds {
                        match next(&mut ev_i) {
                            Some(UEv::PeerSent { .. }) => {},
                            _ => break 'steps,
                        }
                        total_in += d.len();
                        if d.len() > spare && spare > 0 {
                            rep.probe("udp_dgram_gt_spare");
                        }
                        if d.len() >= spare {
                            spare = 6120;
                        } else {
                            spare -= d.len();
                        }
                        if d.is_empty() {
                            rep.fault("empty_datagram");
                        }
                        let nfr = split_frames(sc.mode, d).len();
                        if nfr > 1 {
                            rep.probe("several_frames_per_datagram");
                        }
                        if d.len() > 512 {
                            rep.probe("datagram_gt_512");
                        }
                        sig.u64((d.len() as u64 + 1).ilog2() as u64);
                        sig.u64(nfr.min(5) as u64);
                    }
                    let mut kas = 0usize;
                    for d in ds {
                        for f in split_frames(sc.mode, d) {
                            if f.kind != FrameKind::Complete {
                                continue;
                            }
                            let e = expect_for(sc.mode, false, &d[f.start..f.start + f.len]);
                            let want = render(&e);
                            let is_ka = matches!(e, Expect::Pkt { keepalive: true, .. });
                            expected_reads.push(want.clone());
                            while let Some(UEv::EmptyDatagramSurfaced) = evs.get(ev_i) {
                                ev_i += 1;
                                rep.probe("empty_datagram_surfaced_as_disconnected");
                            }
                            match next(&mut ev_i) {
                                Some(UEv::Read { res }) => {
                                    let got = render_res(res);
                                    h.write(got.as_bytes());
                                    if e == Expect::Unmodelled {
                                        stop = true;
                                        break 'steps;
                                    }
                                    if got != want {
                                        let clause = match res {
                                            AppRes::Pkt(_) | AppRes::Decode(_) => "udp.wrong_packet",
                                            AppRes::Other(s) if s.starts_with("panic") => "udp.panic",
                                            _ => "udp.read_failed",
                                        };
                                        rep.violations.push(v(
                                            clause,
                                            format!(
                                                "{} read #{} after {} bytes of inbound traffic: expected {}, got {}",
                                                tag,
                                                expected_reads.len(),
                                                total_in,
                                                want.chars().take(140).collect::<String>(),
                                                got.chars().take(200).collect::<String>()
                                            ),
                                        ));
                                        stop = true;
                                        break 'steps;
                                    }
                                },
                                _ => break 'steps,
                            }
                            // datagrams the peer got during this read: exactly one reply iff keep-alive
                            let mut got_d = Vec::new();
                            while let Some(UEv::PeerGot { dgram }) = evs.get(ev_i) {
                                got_d.push(dgram.clone());
                                ev_i += 1;
                            }
                            if is_ka {
                                kas += 1;
                                if got_d != vec![pong.clone()] {
                                    rep.violations.push(v("udp.reply_datagram", format!("{} a keep-alive was read but the peer received {:?} instead of exactly one datagram {}", tag, got_d, pong)));
                                    stop = true;
                                    break 'steps;
                                }
                            } else if !got_d.is_empty() {
                                rep.violations.push(v("udp.unsolicited_datagram", format!("{} the peer received {:?} during the read of a non-keep-alive frame", tag, got_d)));
                                stop = true;
                                break 'steps;
                            }
                        }
                    }
                    if kas > 0 {
                        rep.probe("keepalive_over_udp");
                    }
                },
                UStep::Abandon { dgram } => {
                    match next(&mut ev_i) {
                        Some(UEv::PeerSent { .. }) => {},
                        _ => break 'steps,
                    }
                    rep.fault("connection_abandoned_with_frames_buffered");
                    let frames = split_frames(sc.mode, dgram);
                    if let Some(f) = frames.first() {
                        let want = render(&expect_for(sc.mode, false, &dgram[f.start..f.start + f.len]));
                        match next(&mut ev_i) {
                            Some(UEv::Read { res }) => {
                                let got = render_res(res);
                                h.write(got.as_bytes());
                                if got != want {
                                    rep.violations.push(v(
                                        if matches!(res, AppRes::Pkt(_) | AppRes::Decode(_)) { "udp.wrong_packet" } else { "udp.read_failed" },
                                        format!("{} last datagram of the session: expected {}, got {}", tag, want.chars().take(120).collect::<String>(), got.chars().take(160).collect::<String>()),
                                    ));
                                }
                            },
                            _ => {},
                        }
                    }
                    break 'steps;
                },
                UStep::HandshakeMidDatagram { dgram, isi } => {
                    match next(&mut ev_i) {
                        Some(UEv::PeerSent { .. }) => {},
                        _ => break 'steps,
                    }
                    total_in += dgram.len();
                    rep.probe("handshake_with_frames_buffered");
                    let isi_exp = ref_decode_packet(sc.mode, isi).1.and_then(|p| ref_encode(sc.mode, &p).ok()).map(|b| hex::enc(&b));
                    let frames = split_frames(sc.mode, dgram);
                    for (k, f) in frames.iter().enumerate() {
                        if f.kind != FrameKind::Complete {
                            continue;
                        }
                        if k == 1 {
                            match next(&mut ev_i) {
                                Some(UEv::Handshook { res }) => {
                                    if *res != AppRes::Done {
                                        rep.violations.push(v("udp.write_failed", format!("{} handshake on a live connection failed: {:?}", tag, res)));
                                        break 'steps;
                                    }
                                },
                                _ => break 'steps,
                            }
                            let mut got_d = Vec::new();
                            while let Some(UEv::PeerGot { dgram }) = evs.get(ev_i) {
                                got_d.push(dgram.clone());
                                ev_i += 1;
                            }
                            if let Some(e) = &isi_exp {
                                if got_d != vec![e.clone()] {
                                    rep.violations.push(v("udp.write_datagram", format!("{} the re-sent handshake reached the peer as {:?} instead of one datagram {}", tag, got_d, e)));
                                    break 'steps;
                                }
                            }
                        }
                        let e = expect_for(sc.mode, false, &dgram[f.start..f.start + f.len]);
                        let want = render(&e);
                        match next(&mut ev_i) {
                            Some(UEv::Read { res }) => {
                                let got = render_res(res);
                                h.write(got.as_bytes());
                                if got != want {
                                    rep.violations.push(v(
                                        if matches!(res, AppRes::Pkt(_) | AppRes::Decode(_)) { "udp.wrong_packet" } else { "udp.read_failed" },
                                        format!("{} packet {} of a {}-packet datagram, read {} a handshake was re-sent: expected {}, got {}", tag, k + 1, frames.len(), if k >= 1 { "after" } else { "before" }, want.chars().take(120).collect::<String>(), got.chars().take(160).collect::<String>()),
                                    ));
                                    break 'steps;
                                }
                            },
                            _ => break 'steps,
                        }
                        if let Some(UEv::PeerGot { dgram }) = evs.get(ev_i) {
                            rep.violations.push(v("udp.unsolicited_datagram", format!("{} the peer received {} during a read", tag, dgram)));
                            break 'steps;
                        }
                    }
                },
                UStep::Stranger(_) => {
                    if let Some(UEv::StrangerSent) = evs.get(ev_i) {
                        ev_i += 1;
                        rep.fault("datagram_from_another_address");
                    }
                },
                UStep::CancelledRead => {
                    if sc.imp != Imp::Tokio {
                        continue;
                    }
                    match next(&mut ev_i) {
                        Some(UEv::Cancelled { completed }) => {
                            rep.fault("read_dropped_after_first_poll");
                            if let Some(r) = completed {
                                rep.violations.push(v("udp.phantom_result", format!("{} a read started with nothing queued completed at once with {:?}", tag, r)));
                                break 'steps;
                            }
                        },
                        _ => break 'steps,
                    }
                    if let Some(UEv::PeerGot { dgram }) = evs.get(ev_i) {
                        rep.violations.push(v("udp.unsolicited_datagram", format!("{} the peer received {} during a dropped read", tag, dgram)));
                        break 'steps;
                    }
                },
                UStep::IdleRead => {
                    if sc.imp != Imp::Blocking {
                        continue;
                    }
                    match next(&mut ev_i) {
                        Some(UEv::Idle { res }) => {
                            rep.fault("recv_timeout_error");
                            h.write(res.class().as_bytes());
                            if !matches!(res, AppRes::Io { .. }) {
                                rep.violations.push(v("udp.idle_read", format!("{} a read with nothing queued returned {:?} instead of the socket's timeout error", tag, res)));
                                break 'steps;
                            }
                        },
                        _ => break 'steps,
                    }
                    // nothing may have been sent to the peer
                    if let Some(UEv::PeerGot { dgram }) = evs.get(ev_i) {
                        rep.violations.push(v("udp.unsolicited_datagram", format!("{} the peer received {} during an idle read", tag, dgram)));
                        break 'steps;
                    }
                },
                UStep::Bounce { lost: _, after, buffered_ka } => {
                    let Some(UEv::Bounced { lost, after: results, pre, down, tail }) = next(&mut ev_i) else { break 'steps };
                    rep.fault("peer_crash_and_restart");
                    let mut pongs_allowed = 0usize;
                    if *buffered_ka {
                        rep.probe("crash_with_buffered_keepalive");
                        match pre {
                            Some(AppRes::Pkt(d)) if d.contains("RequestId(65)") => {},
                            other => {
                                rep.violations.push(v("udp.wrong_packet", format!("{} first packet of the datagram sent just before the peer crashed: {:?}", tag, other)));
                                break 'steps;
                            },
                        }
                        match down {
                            Some(AppRes::Io { .. }) => rep.probe("reply_met_icmp_error"),
                            Some(AppRes::Pkt(d)) if d.contains("subt: None") => {},
                            other => {
                                rep.violations.push(v("udp.read_failed", format!("{} reading the buffered keep-alive while the peer was down: {:?}", tag, other)));
                                break 'steps;
                            },
                        }
                        pongs_allowed = 1;
                    }
                    h.write(lost.class().as_bytes());
                    let exps: Vec<String> = after
                        .iter()
                        .filter_map(|f| ref_decode_packet(sc.mode, f).1)
                        .filter_map(|p| ref_encode(sc.mode, &p).ok())
                        .map(|b| hex::enc(&b))
                        .collect();
                    if exps.len() != results.len() {
                        break 'steps;
                    }
                    for (k, ((res, got), exp)) in results.iter().zip(exps.iter()).enumerate() {
                        match res {
                            AppRes::Done => {
                                // a keep-alive reply still owed may go out first, as its own datagram
                                let mut got = got.clone();
                                if pongs_allowed > 0 && got.first() == Some(&pong) {
                                    let _ = got.remove(0);
                                    pongs_allowed -= 1;
                                }
                                let got = &got;
                                if got != &vec![exp.clone()] {
                                    rep.violations.push(v(
                                        "udp.write_datagram",
                                        format!("{} after the peer restarted, write #{} returned Ok but the peer received {:?} instead of exactly the datagram {} (the bounced write before it returned {:?})", tag, k + 1, got, exp, lost),
                                    ));
                                    break 'steps;
                                }
                            },
                            AppRes::Io { .. } => {
                                rep.probe("icmp_error_surfaced_on_write");
                                if !got.is_empty() && got != &vec![exp.clone()] {
                                    rep.violations.push(v("udp.write_datagram", format!("{} a failed write put {:?} on the wire", tag, got)));
                                    break 'steps;
                                }
                            },
                            other => {
                                rep.violations.push(v("udp.write_failed", format!("{} write after the peer restarted: {:?}", tag, other)));
                                break 'steps;
                            },
                        }
                    }
                    // buffered keep-alive: whatever is still owed is delivered before the sentinel, and
                    // nothing but (at most one) reply datagram is sent meanwhile
                    if *buffered_ka {
                        let mut seen_ka = matches!(down, Some(AppRes::Pkt(_)));
                        let mut ok_end = false;
                        for (r, got) in tail {
                            for g in got {
                                if *g == pong && pongs_allowed > 0 {
                                    pongs_allowed -= 1;
                                } else {
                                    rep.violations.push(v("udp.unsolicited_datagram", format!("{} after the restart the peer received {} during a read", tag, g)));
                                    break 'steps;
                                }
                            }
                            match r {
                                AppRes::Pkt(d) if d.contains("RequestId(66)") => {
                                    ok_end = true;
                                    break;
                                },
                                AppRes::Pkt(d) if d.contains("subt: None") && !seen_ka => seen_ka = true,
                                other => {
                                    rep.violations.push(v("udp.wrong_packet", format!("{} after the restart, before the sentinel: {:?}", tag, other)));
                                    break 'steps;
                                },
                            }
                        }
                        if !ok_end {
                            rep.violations.push(v("udp.read_failed", format!("{} the sentinel sent by the restarted peer was never delivered: {:?}", tag, tail.iter().map(|t| t.0.class()).collect::<Vec<_>>())));
                            break 'steps;
                        }
                    }
                    // the last write after a restart must get through (the queued error is spent)
                    if let Some((res, _)) = results.last() {
                        if results.len() >= 3 && *res != AppRes::Done {
                            rep.violations.push(v("udp.write_failed", format!("{} the third write after the peer restarted still fails: {:?}", tag, res)));
                            break 'steps;
                        }
                    }
                },
                UStep::Write(f) => {
                    let Some(p) = ref_decode_packet(sc.mode, f).1 else { continue };
                    let Ok(exp) = ref_encode(sc.mode, &p) else {
                        // the encoder refuses this packet: the write must fail, nothing may leave
                        match next(&mut ev_i) {
                            Some(UEv::Wrote { res }) => {
                                rep.probe("unencodable_packet_written");
                                if *res == AppRes::Done {
                                    rep.violations.push(v("udp.write_failed", format!("{} write of a packet the encoder refuses returned Ok", tag)));
                                    break 'steps;
                                }
                            },
                            _ => break 'steps,
                        }
                        if let Some(UEv::PeerGot { dgram }) = evs.get(ev_i) {
                            rep.violations.push(v("udp.unsolicited_datagram", format!("{} a refused write still sent {}", tag, dgram)));
                            break 'steps;
                        }
                        continue;
                    };
                    match next(&mut ev_i) {
                        Some(UEv::Wrote { res }) => {
                            if *res != AppRes::Done {
                                rep.violations.push(v("udp.write_failed", format!("{} write of a {}-byte frame failed: {:?}", tag, exp.len(), res)));
                                stop = true;
                                break 'steps;
                            }
                        },
                        _ => break 'steps,
                    }
                    let mut got_d = Vec::new();
                    while let Some(UEv::PeerGot { dgram }) = evs.get(ev_i) {
                        got_d.push(dgram.clone());
                        ev_i += 1;
                    }
                    h.write(format!("{:?}", got_d).as_bytes());
                    rep.probe("udp_write");
                    if got_d != vec![hex::enc(&exp)] {
                        rep.violations.push(v(
                            "udp.write_datagram",
                            format!("{} write of {} reached the peer as {} datagram(s) {:?}", tag, hex::enc(&exp), got_d.len(), got_d.iter().map(|s| s.chars().take(80).collect::<String>()).collect::<Vec<_>>()),
                        ));
                        stop = true;
                        break 'steps;
                    }
                },
            }
        }
        let _ = stop;
        if total_in > 6120 {
            rep.probe("session_gt_buffer");
        }
        if total_in > 5 * 6120 {
            rep.probe("session_gt_5x_buffer");
        }
        if !sc.note.is_empty() {
            rep.fault("datagram_loss_dup_or_reorder");
        }
        match sc.imp {
            Imp::Blocking => rep.probe("blocking_runs"),
            Imp::Tokio => rep.probe("tokio_runs"),
        }
        rep.trace_hash = h.finish();
        rep.signature = sig.finish();
        rep.nontrivial = total_in > 6120 || !sc.note.is_empty();
        rep
    }

    fn trace(&self, sc: &UdpSc) -> Value {
        let run = run_udp(sc);
        let n = run.events.len();
        let tail: Vec<&UEv> = run.events.iter().skip(n.saturating_sub(60)).collect();
        json!({"events_total": n, "last_events": tail, "harness_error": run.harness_error})
    }

    fn shrink(&self, sc: &UdpSc) -> Vec<UdpSc> {
        let mut c = Vec::new();
        let n = sc.steps.len();
        // drop prefixes first (the failure usually needs history, so this mostly fails) then pieces
        for (a, b) in [(n / 2, n), (0, n / 2), (n / 4, n / 2), (n / 2, 3 * n / 4), (3 * n / 4, n)] {
            if a < b && b <= n && b - a < n {
                let mut s = sc.clone();
                let _ = s.steps.drain(a..b);
                c.push(s);
            }
        }
        if n <= 200 {
            for i in 0..n {
                let mut s = sc.clone();
                let _ = s.steps.remove(i);
                c.push(s);
            }
        }
        // thin out bursts
        for i in 0..n.min(200) {
            if let UStep::Burst(ds) = &sc.steps[i] {
                if ds.len() > 1 {
                    for j in 0..ds.len() {
                        let mut s = sc.clone();
                        if let UStep::Burst(x) = &mut s.steps[i] {
                            let _ = x.remove(j);
                        }
                        c.push(s);
                    }
                }
            }
        }
        c
    }

    fn preludes(&self, _sc: &UdpSc) -> Vec<UdpSc> {
        let mut v = Vec::new();
        for mode in [SizeMode::Compressed, SizeMode::Uncompressed] {
            for imp in [Imp::Blocking, Imp::Tokio] {
                v.push(UdpSc {
                    imp,
                    mode,
                    steps: vec![UStep::Burst(vec![mode.pong().to_vec()])],
                    note: "prelude".into(),
                    trace: false,
                    via_builder: false,
                });
                let mut d = gen::tiny(mode, 0x51, 3);
                d.extend_from_slice(&gen::tiny(mode, 0x52, 3));
                d.extend_from_slice(&gen::tiny(mode, 0x53, 3));
                v.push(UdpSc {
                    imp,
                    mode,
                    steps: vec![UStep::Abandon { dgram: d }],
                    note: "prelude".into(),
                    trace: false,
                    via_builder: false,
                });
            }
        }
        v
    }

    fn repro_variants(&self, sc: &UdpSc) -> Vec<UdpSc> {
        // tracing keeps a process-wide callsite cache: a case found with `trace: false` while
        // another worker had a subscriber reproduces on its own only with `trace: true`
        if sc.trace {
            vec![]
        } else {
            let mut v = sc.clone();
            v.trace = true;
            vec![v]
        }
    }

    fn rule(&self) -> String {
        "Each case is one UDP session over kernel loopback: the peer sends bursts of 1..8 datagrams (each 1..n whole frames, 4..1020 bytes, either one fixed shape repeated as LFS does for MCI/NLP or mixed; peer-side loss, duplication and reordering) up to ~10x the 6120-byte receive buffer, and after each burst the real Framed over the real UdpStream adaptor reads every frame; the application occasionally writes. Oracle: each read returns the model's result for the next frame of the datagrams actually sent, in order; a keep-alive causes exactly one 4-byte reply datagram, nothing else causes any; each write arrives as exactly one datagram equal to the encoded frame. Non-trivial = cumulative traffic beyond one receive buffer, or a network fault applied; distinct = sequence of (log2 datagram size, frames per datagram).".into()
    }
    fn assumptions(&self) -> Vec<String> {
        vec![
            "kernel loopback UDP preserves order and neither drops nor blocks with <= 8 datagrams (<= 8 KiB) in flight; delivery is complete when send() returns".into(),
            "real time is used in this world: every library call is guarded by a 3 s wall-clock bound (expected latency ~50 us); expiry is reported as a failed read".into(),
            "the schedule inside the kernel is not controlled, only made irrelevant to the observable outcome by lock-step driving from one thread".into(),
            "write-side back-pressure (WouldBlock) of the adaptors is not reachable here; the only transport error injected is the blocking socket's own read timeout (25 ms) on reads issued while nothing is queued".into(),
        ]
    }
    fn components(&self) -> Value {
        json!({
            "real": ["insim::net::blocking_impl::UdpStream", "insim::net::tokio_impl::UdpStream", "both Framed", "Codec", "kernel loopback UDP sockets", "tokio I/O driver (real time)"],
            "stub": ["peer (scripted datagram bursts incl. loss/dup/reorder, crash and restart on the same port, capture of received datagrams)", "application (lock-step reads and writes)"],
        })
    }
    fn required(&self, _tier: Tier) -> Vec<&'static str> {
        vec![
            "udp_dgram_gt_spare",
            "several_frames_per_datagram",
            "datagram_gt_512",
            "session_gt_buffer",
            "session_gt_5x_buffer",
            "keepalive_over_udp",
            "udp_write",
            "datagram_loss_dup_or_reorder",
            "recv_timeout_error",
            "peer_crash_and_restart",
            "crash_with_buffered_keepalive",
            "read_dropped_after_first_poll",
            "empty_datagram",
            "connection_abandoned_with_frames_buffered",
            "handshake_with_frames_buffered",
            "unencodable_packet_written",
            "blocking_runs",
            "tokio_runs",
        ]
    }
}
