//! C09 — the InSim version gate accepts version 9 only, and only when enabled.

use serde_json::{json, Value};

use crate::{
    driver::{Prop, RunReport, Tier},
    gen::{self, FrameMix, GenStats, LinkCfg},
    rng::Rng,
    scenario::{AppOp, Imp, SizeMode, StreamScenario},
    streamprop::{exec_and_filter, shrink_stream, stream_components, trace_json},
};

pub struct C09;

/// The same gate, reached the way applications reach it: `Builder::verify_version(..)` and
/// `connect_blocking` / `connect_async` over loopback TCP or UDP. The peer sends the scenario's
/// frames (one datagram per frame on UDP) after the handshake; each read is compared with the
/// model's verdict for that frame. Only version-related disagreements count.
fn builder_gate_run(sc: &StreamScenario, proto: u8) -> (Vec<crate::oracle::Violation>, bool) {
    use std::io::{Read, Write};
    use crate::link::AppRes;
    use crate::model::{expect_for, split_frames, Expect, FrameKind};
    let frames: Vec<Vec<u8>> = split_frames(sc.mode, &sc.inbound)
        .iter()
        .filter(|f| f.kind == FrameKind::Complete)
        .take(8)
        .map(|f| sc.inbound[f.start..f.start + f.len].to_vec())
        .collect();
    let mut vio = Vec::new();
    let tag = format!("[builder/{}/{:?}/{:?}]", if proto == 0 { "tcp" } else { "udp" }, sc.imp, sc.mode);
    let mode = sc.mode.to_mode();
    let verify = sc.verify_version;
    let imp = sc.imp;
    let results: Result<Vec<AppRes>, String> = (|| {
        let to_res = |r: insim::Result<insim::Packet>| match r {
            Ok(p) => AppRes::Pkt(format!("{:?}", p)),
            Err(e) => AppRes::from_err(&e),
        };
        if proto == 0 {
            let listener = std::net::TcpListener::bind("127.0.0.1:0").map_err(|e| e.to_string())?;
            let addr = listener.local_addr().map_err(|e| e.to_string())?;
            let b = insim::tcp(addr).verify_version(verify).mode(mode);
            let serve = |listener: &std::net::TcpListener| -> Result<std::net::TcpStream, String> {
                let (mut s, _) = listener.accept().map_err(|e| e.to_string())?;
                let mut isi = [0u8; 44];
                s.read_exact(&mut isi).map_err(|e| e.to_string())?;
                for f in &frames {
                    s.write_all(f).map_err(|e| e.to_string())?;
                }
                Ok(s)
            };
            match imp {
                Imp::Blocking => {
                    let mut c = b.connect_blocking().map_err(|e| format!("connect: {:?}", e))?;
                    let _srv = serve(&listener)?;
                    Ok(frames.iter().map(|_| to_res(c.read())).collect())
                },
                Imp::Tokio => {
                    let rt = tokio::runtime::Builder::new_current_thread().enable_all().build().unwrap();
                    rt.block_on(async {
                        let mut c = b.connect_async().await.map_err(|e| format!("connect: {:?}", e))?;
                        let _srv = serve(&listener)?;
                        let mut v = Vec::new();
                        for _ in &frames {
                            v.push(match tokio::time::timeout(std::time::Duration::from_secs(3), c.read()).await {
                                Err(_) => AppRes::Other("no result within 3 s".into()),
                                Ok(r) => to_res(r),
                            });
                        }
                        Ok(v)
                    })
                },
            }
        } else {
            let peer = std::net::UdpSocket::bind("127.0.0.1:0").map_err(|e| e.to_string())?;
            let addr = peer.local_addr().map_err(|e| e.to_string())?;
            let _ = peer.set_read_timeout(Some(std::time::Duration::from_secs(3)));
            let b = insim::udp(addr, None).verify_version(verify).mode(mode);
            let serve = |peer: &std::net::UdpSocket| -> Result<(), String> {
                let mut buf = [0u8; 2048];
                let (_, from) = peer.recv_from(&mut buf).map_err(|e| e.to_string())?;
                for f in &frames {
                    let _ = peer.send_to(f, from).map_err(|e| e.to_string())?;
                }
                Ok(())
            };
            match imp {
                Imp::Blocking => {
                    let mut c = b.connect_blocking().map_err(|e| format!("connect: {:?}", e))?;
                    serve(&peer)?;
                    Ok(frames.iter().map(|_| to_res(c.read())).collect())
                },
                Imp::Tokio => {
                    let rt = tokio::runtime::Builder::new_current_thread().enable_all().build().unwrap();
                    rt.block_on(async {
                        let mut c = b.connect_async().await.map_err(|e| format!("connect: {:?}", e))?;
                        serve(&peer)?;
                        let mut v = Vec::new();
                        for _ in &frames {
                            v.push(match tokio::time::timeout(std::time::Duration::from_secs(3), c.read()).await {
                                Err(_) => AppRes::Other("no result within 3 s".into()),
                                Ok(r) => to_res(r),
                            });
                        }
                        Ok(v)
                    })
                },
            }
        }
    })();
    let results = match results {
        Ok(r) => r,
        Err(_) => return (vio, false),
    };
    for (i, (f, r)) in frames.iter().zip(results.iter()).enumerate() {
        let e = expect_for(sc.mode, verify, f);
        let ok = match (&e, r) {
            (Expect::Pkt { dbg, .. }, AppRes::Pkt(d)) => dbg == d,
            (Expect::Decode, AppRes::Decode(_)) => true,
            (Expect::BadVersion(v), AppRes::IncompatibleVersion(w)) => v == w,
            (Expect::Unmodelled, _) => true,
            _ => false,
        };
        if !ok {
            let gate = matches!(e, Expect::BadVersion(_)) || matches!(r, AppRes::IncompatibleVersion(_));
            if gate {
                vio.push(crate::oracle::v(
                    "gate.wrong_decision",
                    format!("{} gate {} via Builder: frame {} expected {:?}, the connection returned {:?}", tag, if verify { "on" } else { "off" }, i, e, r),
                ));
            }
            break;
        }
        if matches!(e, Expect::BadVersion(_)) {
            break;
        }
    }
    (vio, true)
}

pub fn owns(clause: &str) -> bool {
    clause.starts_with("gate.")
}

const SWEEP: u64 = 256 * 3 * 2 * 2;

impl Prop for C09 {
    type Sc = StreamScenario;

    fn id(&self) -> &'static str {
        "C09"
    }
    fn level(&self) -> &'static str {
        "exploration"
    }
    fn runs(&self, tier: Tier) -> u64 {
        match tier {
            Tier::Quick => 8_000,
            Tier::Thorough => 1_000_000,
        }
    }
    fn sweep_len(&self, tier: Tier) -> u64 {
        match tier {
            Tier::Quick => SWEEP,
            // three different neighbourhoods / segmentations per point
            Tier::Thorough => SWEEP * 3,
        }
    }
    fn sweep_case(&self, _tier: Tier, idx: u64) -> StreamScenario {
        let variant = idx / SWEEP;
        let i = idx % SWEEP;
        let insimver = (i % 256) as u8;
        let gate = (i / 256) % 3; // 0 = on, 1 = off (explicit), 2 = off (default of Framed::new)
        let imp = if (i / 768) % 2 == 0 { Imp::Blocking } else { Imp::Tokio };
        let mode = if (i / 1536) % 2 == 0 { SizeMode::Compressed } else { SizeMode::Uncompressed };
        let mut rng = Rng::new(0xC09_0000 + idx);
        let mut stats = GenStats::default();
        let mix = FrameMix {
            keepalive: 5,
            tiny_other: 10,
            ver: 0,
            known: 60,
            unknown_type: 3,
            random_body: 5,
            big: 0,
            ver_mostly_9: true,
        };
        let n_pre = (variant as usize) + rng.usize(0, 2);
        let mut frames: Vec<Vec<u8>> = (0..n_pre).map(|_| gen::gen_frame(&mut rng, mode, &mix, &mut stats)).collect();
        let reqi = rng.byte();
        frames.push(gen::ver_frame(mode, reqi, insimver, &mut rng));
        frames.push(gen::gen_frame(&mut rng, mode, &mix, &mut stats));
        let (inbound, ends) = gen::concat(&frames);
        let mut lc = LinkCfg::fault_free(&mut rng);
        lc.pending_pm = 100;
        let reads = gen::gen_reads(&mut rng, inbound.len(), &ends, &lc);
        StreamScenario {
            imp,
            mode,
            verify_version: gate == 0,
            explicit_gate: gate != 2,
            flushes: vec![],
            buffered: false,
            gate_calls: vec![],
            trace: false,
            via_builder: None,
            inbound,
            reads,
            writes: vec![],
            ops: vec![AppOp::Drain {
                max: (frames.len() + 2) as u32,
            }],
        }
    }
    fn sweep_note(&self, tier: Tier) -> Value {
        json!({
            "what": "a VER frame with every InSim version value 0..=255 inside a short history, x {gate on, gate off via setter, gate off by Framed::new default} x {blocking, tokio} x {compressed, uncompressed}; neighbours and segmentation derived from the case index",
            "exhaustive_over_this_subspace": true,
            "cases": self.sweep_len(tier),
        })
    }

    fn generate(&self, rng: &mut Rng, _tier: Tier, stats: &mut GenStats) -> StreamScenario {
        let mode = gen::pick_mode(rng);
        let imp = if rng.chance(1, 2) { Imp::Blocking } else { Imp::Tokio };
        let mut mix = FrameMix::swarm(rng);
        mix.ver = rng.range(10, 60);
        mix.ver_mostly_9 = rng.chance(1, 2);
        let target = rng.usize(20, 1200);
        let mut frames = gen::gen_frames_to_target(rng, mode, &mix, target, 200, stats);
        // arbitrary version values, not only the interesting ones
        for f in frames.iter_mut() {
            if f.len() == 20 && f[1] == 2 && rng.chance(1, 2) {
                f[18] = rng.byte();
            }
        }
        // the application may itself ask for the version (TINY_VER with some request id): the
        // reply carries that request id and is gated like any other VER
        let asked: Option<u8> = if rng.chance(1, 4) { Some(*rng.pick(&[1u8, 7, 42, 255])) } else { None };
        if let Some(r) = asked {
            for f in frames.iter_mut() {
                if f.len() == 20 && f[1] == 2 && rng.chance(2, 3) {
                    f[2] = r;
                }
            }
        }
        let (inbound, ends) = gen::concat(&frames);
        let mut lc = if rng.chance(1, 3) { LinkCfg::fault_free(rng) } else { LinkCfg::swarm(rng) };
        lc.early_eof_pm = 0;
        // the property quantifies over inputs and configurations: no transport errors and no
        // idle timeouts here (a defect that loses bytes on those is C05's / C19's, and would
        // reach the gate as a corrupted version value)
        lc.err_pm = 0;
        lc.long_stall_pm = 0;
        let reads = gen::gen_reads(rng, inbound.len(), &ends, &lc);
        let errs = reads
            .iter()
            .filter(|e| matches!(e, crate::scenario::ReadEv::Err(_) | crate::scenario::ReadEv::Stall(_)))
            .count();
        let verify = rng.chance(1, 2);
        if rng.chance(1, 60) {
            // the gate as applications get it: through the Builder, over real sockets
            let short: Vec<u8> = frames.iter().take(6).flat_map(|f| f.iter().copied()).collect();
            return StreamScenario {
                imp,
                mode,
                verify_version: verify,
                explicit_gate: true,
                flushes: vec![],
                buffered: false,
                gate_calls: vec![],
                trace: false,
                via_builder: Some(rng.below(2) as u8),
                inbound: short,
                reads: vec![],
                writes: vec![],
                ops: vec![],
            };
        }
        let mut ops = Vec::new();
        if let Some(r) = asked {
            ops.push(AppOp::Write(gen::tiny(mode, r, 1)));
        }
        if rng.chance(1, 4) {
            // the application may have asked for any protocol version in its own handshake:
            // the gate still accepts 9 only
            let mut f = vec![0u8; 44];
            f[0] = mode.size_byte(44);
            f[1] = 1;
            f[2] = rng.byte();
            f[8] = *rng.pick(&[9u8, 9, 8, 7, 10, 0, 255]);
            f[28] = b'x';
            if crate::model::ref_decode(mode, &f).is_pkt() {
                ops.push(AppOp::Handshake(f));
            }
        }
        // the select!-loop pattern: a version error must surface even if reads are dropped while
        // the transport is slow (tokio)
        let mut writes = vec![];
        if imp == Imp::Tokio && rng.chance(1, 4) {
            let wc = gen::WriteCfg::swarm(rng);
            let k = rng.usize(4, 60);
            writes = gen::gen_writes(rng, k, &wc);
            for _ in 0..rng.usize(1, 20) {
                ops.push(AppOp::ReadCancel {
                    polls: rng.below(5) as u32,
                });
            }
        }
        ops.push(AppOp::Drain {
            max: (frames.len() + errs + 3) as u32,
        });
        StreamScenario {
            imp,
            mode,
            verify_version: verify,
            explicit_gate: verify || rng.chance(1, 2),
            flushes: vec![],
            buffered: false,
            // the setter may be called any number of times: the last call decides
            gate_calls: if rng.chance(1, 4) {
                let mut g: Vec<bool> = (0..rng.usize(1, 3)).map(|_| rng.chance(1, 2)).collect();
                g.push(verify);
                g
            } else {
                vec![]
            },
            trace: rng.chance(1, 8),
            via_builder: None,
            inbound,
            reads,
            writes,
            ops,
        }
    }

    fn execute(&self, sc: &StreamScenario) -> RunReport {
        // In runs with dropped reads only the one thing cancellation can do to the gate counts
        // (a due version error that never surfaces); a wrong value or decision there may just
        // as well be the stream corrupted by a cancellation defect, which is C19's business.
        if let Some(proto) = sc.via_builder {
            let mut r = RunReport::default();
            let (vio, ran) = crate::model::guarded(|| builder_gate_run(sc, proto)).unwrap_or((vec![], false));
            if ran {
                r.probe("gate_via_builder");
                r.probe(match (proto, sc.imp) {
                    (0, Imp::Blocking) => "builder_tcp_blocking",
                    (0, Imp::Tokio) => "builder_tcp_tokio",
                    (_, Imp::Blocking) => "builder_udp_blocking",
                    (_, Imp::Tokio) => "builder_udp_tokio",
                });
            }
            r.violations = vio;
            r.nontrivial = true;
            r.signature = 0xB111D ^ ((proto as u64) << 8) ^ sc.verify_version as u64 ^ ((sc.imp as u64) << 4) ^ ((sc.inbound.len() as u64) << 16);
            return r;
        }
        let cancels = sc.ops.iter().any(|o| matches!(o, AppOp::ReadCancel { .. }));
        let owns_here = |c: &str| if cancels { c == "gate.rejection_lost" } else { owns(c) };
        let mut r = exec_and_filter(sc, &owns_here);
        if cancels {
            r.probe("gate_runs_with_dropped_reads");
        }
        if sc.verify_version {
            r.probe("gate_on_runs");
        } else if sc.explicit_gate {
            r.probe("gate_off_explicit_runs");
        } else {
            r.probe("gate_off_default_runs");
        }
        if sc.ops.iter().any(|o| matches!(o, AppOp::Write(f) if f.len() == 4 && f[1] == 3 && f[3] == 1)) {
            r.probe("application_asked_for_version");
        }
        if sc.gate_calls.len() >= 2 && sc.gate_calls.iter().any(|g| *g != sc.verify_version) {
            r.probe("gate_switched_back_and_forth");
        }
        if sc.ops.iter().any(|o| matches!(o, AppOp::Handshake(f) if f.len() > 8 && f[8] != 9)) {
            r.probe("handshake_asked_for_other_version");
        }
        r
    }
    fn trace(&self, sc: &StreamScenario) -> Value {
        trace_json(sc)
    }
    fn shrink(&self, sc: &StreamScenario) -> Vec<StreamScenario> {
        shrink_stream(sc)
    }
    fn preludes(&self, sc: &StreamScenario) -> Vec<StreamScenario> {
        crate::streamprop::stream_preludes(sc)
    }
    fn repro_variants(&self, sc: &StreamScenario) -> Vec<StreamScenario> {
        // tracing keeps a process-wide callsite cache: a case found with `trace: false` while
        // another worker had a subscriber reproduces on its own only with `trace: true`
        if sc.trace {
            vec![]
        } else {
            let mut v = sc.clone();
            v.trace = true;
            vec![v]
        }
    }

    fn rule(&self) -> String {
        "Sweep: every InSim version byte 0..=255 in a VER frame x gate {on, off via setter, off by default} x {blocking, tokio} x both size modes, inside a short random history under random segmentation. Seeded runs: histories with VER frames (arbitrary version bytes) at random positions among all other packet kinds, gate setting drawn per run, transient link faults. Oracle: per frame, the result must equal the model's (delivered iff gate off or version == 9; otherwise IncompatibleVersion carrying exactly that byte; a non-VER frame is never answered with IncompatibleVersion). Non-trivial = fault fired or frame split; distinct by trace signature.".into()
    }
    fn assumptions(&self) -> Vec<String> {
        vec![
            "the InSim version of a VER frame is read from the reference decode of that frame alone".into(),
            "nothing is demanded of the session after a correct rejection (builder docs: the connection is lost)".into(),
        ]
    }
    fn components(&self) -> Value {
        stream_components()
    }
    fn required(&self, _tier: Tier) -> Vec<&'static str> {
        vec![
            "ver_rejected",
            "ver_delivered",
            "gate_on_runs",
            "gate_off_explicit_runs",
            "gate_off_default_runs",
            "handshake_asked_for_other_version",
            "gate_switched_back_and_forth",
            "application_asked_for_version",
            "builder_tcp_blocking",
            "builder_tcp_tokio",
            "builder_udp_blocking",
            "builder_udp_tokio",
        ]
    }
}
