//! C09 — the InSim version gate accepts version 9 only, and only when enabled.

use serde_json::{json, Value};

use crate::{
    driver::{Prop, RunReport, Tier},
    gen::{self, FrameMix, GenStats, LinkCfg},
    rng::Rng,
    scenario::{AppOp, Imp, SizeMode, StreamScenario},
    streamprop::{exec_and_filter, shrink_stream, stream_components, trace_json},
};

pub struct C09;

pub fn owns(clause: &str) -> bool {
    clause.starts_with("gate.")
}

const SWEEP: u64 = 256 * 3 * 2 * 2;

impl Prop for C09 {
    type Sc = StreamScenario;

    fn id(&self) -> &'static str {
        "C09"
    }
    fn level(&self) -> &'static str {
        "exploration"
    }
    fn runs(&self, tier: Tier) -> u64 {
        match tier {
            Tier::Quick => 8_000,
            Tier::Thorough => 1_000_000,
        }
    }
    fn sweep_len(&self, tier: Tier) -> u64 {
        match tier {
            Tier::Quick => SWEEP,
            // three different neighbourhoods / segmentations per point
            Tier::Thorough => SWEEP * 3,
        }
    }
    fn sweep_case(&self, _tier: Tier, idx: u64) -> StreamScenario {
        let variant = idx / SWEEP;
        let i = idx % SWEEP;
        let insimver = (i % 256) as u8;
        let gate = (i / 256) % 3; // 0 = on, 1 = off (explicit), 2 = off (default of Framed::new)
        let imp = if (i / 768) % 2 == 0 { Imp::Blocking } else { Imp::Tokio };
        let mode = if (i / 1536) % 2 == 0 { SizeMode::Compressed } else { SizeMode::Uncompressed };
        let mut rng = Rng::new(0xC09_0000 + idx);
        let mut stats = GenStats::default();
        let mix = FrameMix {
            keepalive: 5,
            tiny_other: 10,
            ver: 0,
            known: 60,
            unknown_type: 3,
            random_body: 5,
            big: 0,
            ver_mostly_9: true,
        };
        let n_pre = (variant as usize) + rng.usize(0, 2);
        let mut frames: Vec<Vec<u8>> = (0..n_pre).map(|_| gen::gen_frame(&mut rng, mode, &mix, &mut stats)).collect();
        let reqi = rng.byte();
        frames.push(gen::ver_frame(mode, reqi, insimver, &mut rng));
        frames.push(gen::gen_frame(&mut rng, mode, &mix, &mut stats));
        let (inbound, ends) = gen::concat(&frames);
        let mut lc = LinkCfg::fault_free(&mut rng);
        lc.pending_pm = 100;
        let reads = gen::gen_reads(&mut rng, inbound.len(), &ends, &lc);
        StreamScenario {
            imp,
            mode,
            verify_version: gate == 0,
            explicit_gate: gate != 2,
            flushes: vec![],
            buffered: false,
            gate_calls: vec![],
            trace: false,
            inbound,
            reads,
            writes: vec![],
            ops: vec![AppOp::Drain {
                max: (frames.len() + 2) as u32,
            }],
        }
    }
    fn sweep_note(&self, tier: Tier) -> Value {
        json!({
            "what": "a VER frame with every InSim version value 0..=255 inside a short history, x {gate on, gate off via setter, gate off by Framed::new default} x {blocking, tokio} x {compressed, uncompressed}; neighbours and segmentation derived from the case index",
            "exhaustive_over_this_subspace": true,
            "cases": self.sweep_len(tier),
        })
    }

    fn generate(&self, rng: &mut Rng, _tier: Tier, stats: &mut GenStats) -> StreamScenario {
        let mode = gen::pick_mode(rng);
        let imp = if rng.chance(1, 2) { Imp::Blocking } else { Imp::Tokio };
        let mut mix = FrameMix::swarm(rng);
        mix.ver = rng.range(10, 60);
        mix.ver_mostly_9 = rng.chance(1, 2);
        let target = rng.usize(20, 1200);
        let mut frames = gen::gen_frames_to_target(rng, mode, &mix, target, 200, stats);
        // arbitrary version values, not only the interesting ones
        for f in frames.iter_mut() {
            if f.len() == 20 && f[1] == 2 && rng.chance(1, 2) {
                f[18] = rng.byte();
            }
        }
        let (inbound, ends) = gen::concat(&frames);
        let mut lc = if rng.chance(1, 3) { LinkCfg::fault_free(rng) } else { LinkCfg::swarm(rng) };
        lc.early_eof_pm = 0;
        // the property quantifies over inputs and configurations: no transport errors and no
        // idle timeouts here (a defect that loses bytes on those is C05's / C19's, and would
        // reach the gate as a corrupted version value)
        lc.err_pm = 0;
        lc.long_stall_pm = 0;
        let reads = gen::gen_reads(rng, inbound.len(), &ends, &lc);
        let errs = reads
            .iter()
            .filter(|e| matches!(e, crate::scenario::ReadEv::Err(_) | crate::scenario::ReadEv::Stall(_)))
            .count();
        let verify = rng.chance(1, 2);
        let mut ops = Vec::new();
        if rng.chance(1, 4) {
            // the application may have asked for any protocol version in its own handshake:
            // the gate still accepts 9 only
            let mut f = vec![0u8; 44];
            f[0] = mode.size_byte(44);
            f[1] = 1;
            f[2] = rng.byte();
            f[8] = *rng.pick(&[9u8, 9, 8, 7, 10, 0, 255]);
            f[28] = b'x';
            if crate::model::ref_decode(mode, &f).is_pkt() {
                ops.push(AppOp::Handshake(f));
            }
        }
        // the select!-loop pattern: a version error must surface even if reads are dropped while
        // the transport is slow (tokio)
        let mut writes = vec![];
        if imp == Imp::Tokio && rng.chance(1, 4) {
            let wc = gen::WriteCfg::swarm(rng);
            let k = rng.usize(4, 60);
            writes = gen::gen_writes(rng, k, &wc);
            for _ in 0..rng.usize(1, 20) {
                ops.push(AppOp::ReadCancel {
                    polls: rng.below(5) as u32,
                });
            }
        }
        ops.push(AppOp::Drain {
            max: (frames.len() + errs + 3) as u32,
        });
        StreamScenario {
            imp,
            mode,
            verify_version: verify,
            explicit_gate: verify || rng.chance(1, 2),
            flushes: vec![],
            buffered: false,
            // the setter may be called any number of times: the last call decides
            gate_calls: if rng.chance(1, 4) {
                let mut g: Vec<bool> = (0..rng.usize(1, 3)).map(|_| rng.chance(1, 2)).collect();
                g.push(verify);
                g
            } else {
                vec![]
            },
            trace: rng.chance(1, 8),
            inbound,
            reads,
            writes,
            ops,
        }
    }

    fn execute(&self, sc: &StreamScenario) -> RunReport {
        // In runs with dropped reads only the one thing cancellation can do to the gate counts
        // (a due version error that never surfaces); a wrong value or decision there may just
        // as well be the stream corrupted by a cancellation defect, which is C19's business.
        let cancels = sc.ops.iter().any(|o| matches!(o, AppOp::ReadCancel { .. }));
        let owns_here = |c: &str| if cancels { c == "gate.rejection_lost" } else { owns(c) };
        let mut r = exec_and_filter(sc, &owns_here);
        if cancels {
            r.probe("gate_runs_with_dropped_reads");
        }
        if sc.verify_version {
            r.probe("gate_on_runs");
        } else if sc.explicit_gate {
            r.probe("gate_off_explicit_runs");
        } else {
            r.probe("gate_off_default_runs");
        }
        if sc.gate_calls.len() >= 2 && sc.gate_calls.iter().any(|g| *g != sc.verify_version) {
            r.probe("gate_switched_back_and_forth");
        }
        if sc.ops.iter().any(|o| matches!(o, AppOp::Handshake(f) if f.len() > 8 && f[8] != 9)) {
            r.probe("handshake_asked_for_other_version");
        }
        r
    }
    fn trace(&self, sc: &StreamScenario) -> Value {
        trace_json(sc)
    }
    fn shrink(&self, sc: &StreamScenario) -> Vec<StreamScenario> {
        shrink_stream(sc)
    }
    fn preludes(&self, sc: &StreamScenario) -> Vec<StreamScenario> {
        crate::streamprop::stream_preludes(sc)
    }
    fn repro_variants(&self, sc: &StreamScenario) -> Vec<StreamScenario> {
        // tracing keeps a process-wide callsite cache: a case found with `trace: false` while
        // another worker had a subscriber reproduces on its own only with `trace: true`
        if sc.trace {
            vec![]
        } else {
            let mut v = sc.clone();
            v.trace = true;
            vec![v]
        }
    }

    fn rule(&self) -> String {
        "Sweep: every InSim version byte 0..=255 in a VER frame x gate {on, off via setter, off by default} x {blocking, tokio} x both size modes, inside a short random history under random segmentation. Seeded runs: histories with VER frames (arbitrary version bytes) at random positions among all other packet kinds, gate setting drawn per run, transient link faults. Oracle: per frame, the result must equal the model's (delivered iff gate off or version == 9; otherwise IncompatibleVersion carrying exactly that byte; a non-VER frame is never answered with IncompatibleVersion). Non-trivial = fault fired or frame split; distinct by trace signature.".into()
    }
    fn assumptions(&self) -> Vec<String> {
        vec![
            "the InSim version of a VER frame is read from the reference decode of that frame alone".into(),
            "nothing is demanded of the session after a correct rejection (builder docs: the connection is lost)".into(),
        ]
    }
    fn components(&self) -> Value {
        stream_components()
    }
    fn required(&self, _tier: Tier) -> Vec<&'static str> {
        vec![
            "ver_rejected",
            "ver_delivered",
            "gate_on_runs",
            "gate_off_explicit_runs",
            "gate_off_default_runs",
            "handshake_asked_for_other_version",
            "gate_switched_back_and_forth",
        ]
    }
}
