//! C17 — PTH and SMX files round-trip and their parsers withstand any input.
//!
//! File world: an in-memory faulty disk under binrw's Read+Seek / Write+Seek seams (short reads,
//! EINTR, EIO, short writes, ENOSPC, crash with prefix / zero-filled / stale-tail survivors), a
//! counting allocator, and real temporary files for from_file / from_pathbuf.

use std::{
    collections::VecDeque,
    io::{self, Cursor, Read, Seek, SeekFrom, Write},
    sync::OnceLock,
};

use insim_core::binrw::{BinRead, BinWrite};
use insim_pth::Pth;
use insim_smx::Smx;
use serde::{Deserialize, Serialize};
use serde_json::{json, Value};

use crate::{
    alloc::measure,
    driver::{Prop, RunReport, Tier},
    gen::{self, GenStats},
    model::guarded,
    oracle::v,
    rng::{Fnv, Rng},
    scenario::hex,
};

pub struct C17;

#[derive(Serialize, Deserialize, Clone, Copy, Debug, PartialEq, Eq)]
pub enum Kind {
    Pth,
    Smx,
}

#[derive(Serialize, Deserialize, Clone, Debug, PartialEq, Eq)]
pub enum DiskEv {
    /// transfer at most k bytes (at least 1)
    Short(usize),
    Interrupted,
    /// hard I/O error
    Eio,
    /// no space left (writes)
    Full,
}

#[derive(Serialize, Deserialize, Clone, Debug, PartialEq, Eq)]
pub enum Tail {
    /// the file simply ends where durable data ends
    Cut,
    /// length was extended but the blocks were never written
    Zeros,
    /// the blocks still hold another file's bytes
    Stale(#[serde(with = "hex")] Vec<u8>),
}

#[derive(Serialize, Deserialize, Clone, Debug, PartialEq, Eq)]
pub enum FOp {
    /// `image` is a canonical valid file: parse it through the faulty disk, re-serialise, re-parse.
    /// `offset` > 0: the file sits behind that many bytes of unrelated data in the stream (a
    /// container, a seeked File, output appended to existing data) for both the read and the write
    RoundTrip {
        reads: Vec<DiskEv>,
        #[serde(default)]
        offset: usize,
    },
    /// parse `image` (valid), save it through a faulty disk that crashes after `durable` bytes
    /// (None = no crash), then parse the survivor
    SaveCrash {
        writes: Vec<DiskEv>,
        durable: Option<usize>,
        tail: Tail,
    },
    /// `image` is valid: every listed strict prefix (empty list = all) must be rejected
    Truncations { cuts: Vec<usize> },
    /// `image` is a strict prefix of a valid file: it must be rejected
    Prefix,
    /// arbitrary bytes: no panic, bounded allocation; `reads` as above
    Hostile { reads: Vec<DiskEv> },
    /// from_file / from_pathbuf on a real temporary file (and a missing path)
    RealFile,
}

#[derive(Serialize, Deserialize, Clone, Debug, PartialEq, Eq)]
pub struct FileSc {
    pub kind: Kind,
    #[serde(with = "hex")]
    pub image: Vec<u8>,
    pub op: FOp,
    #[serde(default)]
    pub note: String,
}

// ---------------- faulty disk ----------------

struct DiskReader {
    data: Vec<u8>,
    pos: u64,
    script: VecDeque<DiskEv>,
    fired: [u64; 4],
    calls: u64,
}

impl DiskReader {
    fn new(data: Vec<u8>, script: &[DiskEv]) -> Self {
        DiskReader {
            data,
            pos: 0,
            script: script.iter().cloned().collect(),
            fired: [0; 4],
            calls: 0,
        }
    }
}

impl Read for DiskReader {
    fn read(&mut self, buf: &mut [u8]) -> io::Result<usize> {
        self.calls += 1;
        let remaining = (self.data.len() as u64).saturating_sub(self.pos) as usize;
        let mut n = buf.len().min(remaining);
        match self.script.pop_front() {
            Some(DiskEv::Short(k)) => {
                if n > k.max(1) {
                    n = k.max(1);
                    self.fired[0] += 1;
                }
            },
            Some(DiskEv::Interrupted) => {
                self.fired[1] += 1;
                return Err(io::Error::new(io::ErrorKind::Interrupted, "injected EINTR"));
            },
            Some(DiskEv::Eio) | Some(DiskEv::Full) => {
                self.fired[2] += 1;
                return Err(io::Error::new(io::ErrorKind::Other, "injected EIO"));
            },
            None => {},
        }
        if n == 0 {
            return Ok(0);
        }
        let p = self.pos as usize;
        buf[..n].copy_from_slice(&self.data[p..p + n]);
        self.pos += n as u64;
        Ok(n)
    }
}

impl Seek for DiskReader {
    fn seek(&mut self, s: SeekFrom) -> io::Result<u64> {
        let np = match s {
            SeekFrom::Start(x) => x as i128,
            SeekFrom::Current(d) => self.pos as i128 + d as i128,
            SeekFrom::End(d) => self.data.len() as i128 + d as i128,
        };
        if np < 0 {
            return Err(io::Error::new(io::ErrorKind::InvalidInput, "seek before start"));
        }
        self.pos = np as u64;
        Ok(self.pos)
    }
}

struct DiskWriter {
    platter: Vec<u8>,
    pos: u64,
    script: VecDeque<DiskEv>,
    fired: [u64; 4],
    /// total bytes accepted so far (in acceptance order) — the crash point counts these
    accepted: usize,
    /// (offset, byte) log in acceptance order, for computing the durable prefix at a crash
    log: Vec<(u64, u8)>,
}

impl DiskWriter {
    fn new(script: &[DiskEv]) -> Self {
        DiskWriter {
            platter: Vec::new(),
            pos: 0,
            script: script.iter().cloned().collect(),
            fired: [0; 4],
            accepted: 0,
            log: Vec::new(),
        }
    }
    /// what is on the platter if only the first `durable` accepted bytes survive
    fn survivor(&self, durable: usize) -> Vec<u8> {
        let mut out: Vec<u8> = Vec::new();
        for (off, b) in self.log.iter().take(durable) {
            let o = *off as usize;
            if out.len() <= o {
                out.resize(o + 1, 0);
            }
            out[o] = *b;
        }
        out
    }
}

impl Write for DiskWriter {
    fn write(&mut self, buf: &[u8]) -> io::Result<usize> {
        let mut n = buf.len();
        match self.script.pop_front() {
            Some(DiskEv::Short(k)) => {
                if n > k.max(1) {
                    n = k.max(1);
                    self.fired[0] += 1;
                }
            },
            Some(DiskEv::Interrupted) => {
                self.fired[1] += 1;
                return Err(io::Error::new(io::ErrorKind::Interrupted, "injected EINTR"));
            },
            Some(DiskEv::Eio) => {
                self.fired[2] += 1;
                return Err(io::Error::new(io::ErrorKind::Other, "injected EIO"));
            },
            Some(DiskEv::Full) => {
                self.fired[3] += 1;
                return Err(io::Error::new(io::ErrorKind::Other, "injected ENOSPC"));
            },
            None => {},
        }
        for (i, b) in buf[..n].iter().enumerate() {
            let o = self.pos as usize + i;
            if self.platter.len() <= o {
                self.platter.resize(o + 1, 0);
            }
            self.platter[o] = *b;
            self.log.push((o as u64, *b));
        }
        self.pos += n as u64;
        self.accepted += n;
        Ok(n)
    }
    fn flush(&mut self) -> io::Result<()> {
        Ok(())
    }
}

impl Seek for DiskWriter {
    fn seek(&mut self, s: SeekFrom) -> io::Result<u64> {
        let np = match s {
            SeekFrom::Start(x) => x as i128,
            SeekFrom::Current(d) => self.pos as i128 + d as i128,
            SeekFrom::End(d) => self.platter.len() as i128 + d as i128,
        };
        if np < 0 {
            return Err(io::Error::new(io::ErrorKind::InvalidInput, "seek before start"));
        }
        self.pos = np as u64;
        Ok(self.pos)
    }
}

// ---------------- the code under test, behind one interface ----------------

enum Parsed {
    Pth(Pth),
    Smx(Smx),
}

fn parse<R: Read + Seek>(kind: Kind, r: &mut R) -> Result<Parsed, String> {
    match kind {
        Kind::Pth => Pth::read(r).map(Parsed::Pth).map_err(|e| short_err(&e.to_string())),
        Kind::Smx => Smx::read(r).map(Parsed::Smx).map_err(|e| short_err(&e.to_string())),
    }
}

fn short_err(s: &str) -> String {
    s.lines().next().unwrap_or("").chars().take(160).collect()
}

fn save<W: Write + Seek>(p: &Parsed, w: &mut W) -> Result<(), String> {
    match p {
        Parsed::Pth(x) => x.write(w).map_err(|e| short_err(&e.to_string())),
        Parsed::Smx(x) => x.write(w).map_err(|e| short_err(&e.to_string())),
    }
}

fn describe(p: &Parsed) -> String {
    match p {
        Parsed::Pth(x) => format!("Pth{{v{} r{} finish {} nodes {}}}", x.version, x.revision, x.finish_line_node, x.nodes.len()),
        Parsed::Smx(x) => format!(
            "Smx{{track {:?} objects {} points {} triangles {} checkpoints {}}}",
            x.track,
            x.objects.len(),
            x.objects.iter().map(|o| o.points.len()).sum::<usize>(),
            x.objects.iter().map(|o| o.triangles.len()).sum::<usize>(),
            x.checkpoint_object_index.len()
        ),
    }
}

/// guarded + measured parse from memory
fn parse_mem(kind: Kind, bytes: &[u8], reads: &[DiskEv]) -> (Result<Result<Parsed, String>, String>, usize, [u64; 4]) {
    let mut fired = [0u64; 4];
    let (r, peak) = measure(|| {
        guarded(|| {
            let mut d = DiskReader::new(bytes.to_vec(), reads);
            let r = parse(kind, &mut d);
            fired = d.fired;
            r
        })
    });
    // the DiskReader's own copy of the input is not the parser's allocation
    (r, peak.saturating_sub(bytes.len()), fired)
}

fn alloc_bound(len: usize) -> usize {
    64 * len + 64 * 1024
}

// ---------------- generation of canonical images ----------------

struct Image {
    bytes: Vec<u8>,
    /// offsets of i32 count fields
    counts: Vec<usize>,
    /// offsets at which a structure element starts/ends
    boundaries: Vec<usize>,
}

fn f32_bits(rng: &mut Rng) -> [u8; 4] {
    match rng.below(12) {
        0 => 0x7FC0_0000u32.to_le_bytes(),
        1 => 0xFFC0_0001u32.to_le_bytes(),
        2 => 0x7F80_0001u32.to_le_bytes(), // signalling NaN
        3 => 0x7F80_0000u32.to_le_bytes(), // +inf
        4 => 0x8000_0000u32.to_le_bytes(), // -0.0
        5 => 0u32.to_le_bytes(),
        6 => (rng.range(0, 2000) as f32 / 7.0).to_le_bytes(),
        _ => (rng.next_u64() as u32).to_le_bytes(),
    }
}

fn i32_bytes(rng: &mut Rng) -> [u8; 4] {
    match rng.below(6) {
        0 => i32::MIN.to_le_bytes(),
        1 => i32::MAX.to_le_bytes(),
        2 => (-1i32).to_le_bytes(),
        3 => 0i32.to_le_bytes(),
        _ => (rng.next_u64() as u32).to_le_bytes(),
    }
}

fn size_class(rng: &mut Rng, big: usize) -> usize {
    match rng.below(10) {
        0 => 0,
        1 => 1,
        2..=7 => rng.usize(0, 6),
        8 => rng.usize(6, 40),
        _ => rng.usize(40, big),
    }
}

fn gen_pth(rng: &mut Rng) -> Image {
    // the shipped AS1 has 288 nodes; real tracks go beyond a thousand
    let n = if rng.chance(1, 300) {
        // around the 16-bit boundary of the node count (node indices are 16-bit in MCI/NLP)
        rng.usize(65_530, 65_545)
    } else if rng.chance(1, 12) {
        rng.usize(400, 1600)
    } else {
        size_class(rng, 400)
    };
    gen_pth_n(rng, n)
}

fn gen_pth_n(rng: &mut Rng, n: usize) -> Image {
    let mut b = b"LFSPTH".to_vec();
    b.push(rng.byte());
    b.push(rng.byte());
    let counts = vec![b.len()];
    b.extend_from_slice(&(n as i32).to_le_bytes());
    b.extend_from_slice(&i32_bytes(rng));
    let mut boundaries = vec![b.len()];
    for _ in 0..n {
        for _ in 0..3 {
            b.extend_from_slice(&i32_bytes(rng));
        }
        for _ in 0..7 {
            b.extend_from_slice(&f32_bits(rng));
        }
        boundaries.push(b.len());
    }
    Image {
        bytes: b,
        counts,
        boundaries,
    }
}

fn gen_smx(rng: &mut Rng) -> Image {
    let mut b = b"LFSSMX".to_vec();
    for _ in 0..6 {
        b.push(rng.byte());
    }
    b.extend_from_slice(&[0; 4]);
    // up to the full field width (a 32-byte name has no terminator on disk)
    let name_len = if rng.chance(1, 6) { 32 } else { rng.usize(0, 31) };
    let mut name: Vec<u8> = (0..name_len)
        .map(|_| *rng.pick(b"abcdefghijklmnopqrstuvwxyzABCDEFGHIJKLMNOPQRSTUVWXYZ0123456789_-()"))
        .collect();
    if rng.chance(1, 5) && name_len >= 4 {
        // bytes above 0x7f as LFS writes them in its default (Latin-1) code page, including byte
        // pairs that happen to be well-formed UTF-8: a canonical file is reproduced byte for byte
        // whatever its track name looks like under another encoding
        for _ in 0..rng.usize(1, 3) {
            let at = rng.usize(0, name_len - 2);
            let pair: [u8; 2] = *rng.pick(&[[0xC3, 0x9F], [0xC3, 0xA9], [0xE9, 0x20], [0xDF, 0x65], [0xC2, 0xB2], [0xFC, 0xF6]]);
            name[at] = pair[0];
            name[at + 1] = pair[1];
        }
    }
    name.resize(32, 0);
    b.extend_from_slice(&name);
    for _ in 0..3 {
        b.push(rng.byte());
    }
    b.extend_from_slice(&[0; 9]);
    let nobj = size_class(rng, 120);
    let mut counts = vec![b.len()];
    let mut boundaries = Vec::new();
    b.extend_from_slice(&(nobj as i32).to_le_bytes());
    for _ in 0..nobj {
        boundaries.push(b.len());
        for _ in 0..4 {
            b.extend_from_slice(&i32_bytes(rng));
        }
        let np = size_class(rng, 60);
        let nt = size_class(rng, 60);
        counts.push(b.len());
        b.extend_from_slice(&(np as i32).to_le_bytes());
        counts.push(b.len());
        b.extend_from_slice(&(nt as i32).to_le_bytes());
        for _ in 0..np {
            for _ in 0..3 {
                b.extend_from_slice(&i32_bytes(rng));
            }
            b.extend_from_slice(&(rng.next_u64() as u32).to_le_bytes());
        }
        boundaries.push(b.len());
        for _ in 0..nt {
            for _ in 0..3 {
                b.extend_from_slice(&(rng.next_u64() as u16).to_le_bytes());
            }
            b.extend_from_slice(&[0; 2]);
        }
    }
    boundaries.push(b.len());
    let nc = size_class(rng, 50);
    counts.push(b.len());
    b.extend_from_slice(&(nc as i32).to_le_bytes());
    boundaries.push(b.len());
    for _ in 0..nc {
        b.extend_from_slice(&i32_bytes(rng));
    }
    Image {
        bytes: b,
        counts,
        boundaries,
    }
}

fn gen_image(rng: &mut Rng, kind: Kind) -> Image {
    match kind {
        Kind::Pth => gen_pth(rng),
        Kind::Smx => gen_smx(rng),
    }
}

fn gen_disk_script(rng: &mut Rng, n: usize, hard: bool, write: bool) -> Vec<DiskEv> {
    let mut v = Vec::new();
    let short_pm = if rng.chance(3, 4) { rng.range(100, 900) } else { 0 };
    let eintr_pm = if rng.chance(1, 2) { rng.range(20, 300) } else { 0 };
    for _ in 0..n {
        if rng.chance(eintr_pm, 1000) {
            v.push(DiskEv::Interrupted);
        } else if rng.chance(short_pm, 1000) {
            v.push(DiskEv::Short(match rng.below(3) {
                0 => 1,
                1 => rng.usize(1, 4),
                _ => rng.usize(1, 64),
            }));
        } else {
            v.push(DiskEv::Short(usize::MAX >> 1));
        }
    }
    if hard && !v.is_empty() {
        let at = rng.usize(0, v.len() - 1);
        v[at] = if write && rng.chance(1, 2) { DiskEv::Full } else { DiskEv::Eio };
        v.truncate(at + 1);
    }
    v
}

// ---------------- shipped sample files: enumerated cut points ----------------

struct Shipped {
    cases: Vec<(Kind, usize)>, // (kind, cut)
    pth: Vec<u8>,
    smx: Vec<u8>,
}

fn smx_boundaries(b: &[u8]) -> Vec<usize> {
    // walk the format independently of the library
    let mut v = Vec::new();
    let rd = |o: usize| -> Option<i32> { b.get(o..o + 4).map(|x| i32::from_le_bytes([x[0], x[1], x[2], x[3]])) };
    let mut o = 60;
    let Some(nobj) = rd(o) else { return v };
    o += 4;
    for _ in 0..nobj.max(0) {
        v.push(o);
        let (Some(np), Some(nt)) = (rd(o + 16), rd(o + 20)) else { return v };
        o += 24 + np.max(0) as usize * 16;
        v.push(o);
        o += nt.max(0) as usize * 8;
        if o > b.len() {
            return v;
        }
    }
    v.push(o);
    v.push(o + 4);
    v
}

fn shipped(tier: Tier) -> &'static Shipped {
    static Q: OnceLock<Shipped> = OnceLock::new();
    static T: OnceLock<Shipped> = OnceLock::new();
    let build = |tier: Tier| {
        let pth = std::fs::read("/repo/insim_pth/tests/AS1.pth").unwrap_or_default();
        let smx = std::fs::read("/repo/insim_smx/tests/Autocross_3DH.smx").unwrap_or_default();
        let mut cases = Vec::new();
        if !pth.is_empty() {
            let step = if tier == Tier::Quick { 3 } else { 1 };
            for c in (0..pth.len()).step_by(step) {
                cases.push((Kind::Pth, c));
            }
            cases.push((Kind::Pth, pth.len() - 1));
        }
        if !smx.is_empty() {
            let first = if tier == Tier::Quick { 600 } else { 4096 };
            for c in 0..first.min(smx.len()) {
                cases.push((Kind::Smx, c));
            }
            let bs = smx_boundaries(&smx);
            let step = if tier == Tier::Quick { 97 } else { 8 };
            for (i, c) in bs.iter().enumerate() {
                if (i % step == 0 || i + 12 >= bs.len()) && *c < smx.len() {
                    cases.push((Kind::Smx, *c));
                    if *c > 0 {
                        cases.push((Kind::Smx, *c - 1));
                    }
                }
            }
            cases.push((Kind::Smx, smx.len() - 1));
        }
        Shipped { cases, pth, smx }
    };
    match tier {
        Tier::Quick => Q.get_or_init(|| build(Tier::Quick)),
        Tier::Thorough => T.get_or_init(|| build(Tier::Thorough)),
    }
}

impl Prop for C17 {
    type Sc = FileSc;

    fn id(&self) -> &'static str {
        "C17"
    }
    fn level(&self) -> &'static str {
        "fault_enumeration"
    }
    fn runs(&self, tier: Tier) -> u64 {
        match tier {
            Tier::Quick => 6_000,
            Tier::Thorough => 400_000,
        }
    }
    fn sweep_len(&self, tier: Tier) -> u64 {
        shipped(tier).cases.len() as u64
    }
    fn sweep_case(&self, tier: Tier, idx: u64) -> FileSc {
        let s = shipped(tier);
        let (kind, cut) = s.cases[idx as usize];
        let src = match kind {
            Kind::Pth => &s.pth,
            Kind::Smx => &s.smx,
        };
        FileSc {
            kind,
            image: src[..cut].to_vec(),
            op: FOp::Prefix,
            note: format!("shipped sample file cut after {} of {} bytes", cut, src.len()),
        }
    }
    fn sweep_note(&self, tier: Tier) -> Value {
        json!({
            "what": "strict prefixes of the two shipped sample files (AS1.pth: cut points over the whole file; Autocross_3DH.smx: the first bytes, and object / point-list / triangle-list / checkpoint boundaries and the byte before each)",
            "cases": shipped(tier).cases.len(),
            "exhaustive_over_this_subspace": tier == Tier::Thorough,
        })
    }

    fn generate(&self, rng: &mut Rng, _tier: Tier, _stats: &mut GenStats) -> FileSc {
        let kind = if rng.chance(1, 2) { Kind::Pth } else { Kind::Smx };
        let img = gen_image(rng, kind);
        let len = img.bytes.len();
        if len > 300_000 {
            return FileSc {
                kind,
                image: img.bytes,
                op: FOp::RoundTrip { reads: vec![], offset: 0 },
                note: "very large file".into(),
            };
        }
        match rng.below(10) {
            0 | 1 => {
                let fault_free = rng.chance(1, 3);
                let hard = !fault_free && rng.chance(1, 6);
                let n = rng.usize(0, 400);
                FileSc {
                    kind,
                    image: img.bytes,
                    op: FOp::RoundTrip {
                        reads: if fault_free { vec![] } else { gen_disk_script(rng, n, hard, false) },
                        offset: if rng.chance(1, 4) { rng.usize(1, 9) } else { 0 },
                    },
                    note: String::new(),
                }
            },
            2 | 3 => {
                // all cut points of small files; sampled + structural ones of larger files
                let cuts = if len <= 1500 {
                    vec![]
                } else {
                    let mut c: Vec<usize> = (0..48).map(|_| rng.usize(0, len - 1)).collect();
                    for b in &img.boundaries {
                        if rng.chance(1, 4) {
                            for d in [0usize, 1] {
                                if *b >= d && *b - d < len {
                                    c.push(*b - d);
                                }
                            }
                        }
                    }
                    c.push(len - 1);
                    c.sort();
                    c.dedup();
                    c
                };
                FileSc {
                    kind,
                    image: img.bytes,
                    op: FOp::Truncations { cuts },
                    note: String::new(),
                }
            },
            4 | 5 => {
                let crash = rng.chance(3, 4);
                let n = rng.usize(0, 300);
                let hard = rng.chance(1, 5);
                let writes = if rng.chance(1, 4) { vec![] } else { gen_disk_script(rng, n, hard, true) };
                let durable = if crash {
                    Some(if rng.chance(1, 3) && !img.boundaries.is_empty() {
                        *rng.pick(&img.boundaries)
                    } else {
                        rng.usize(0, len)
                    })
                } else {
                    None
                };
                let tail = match rng.below(3) {
                    0 => Tail::Cut,
                    1 => Tail::Zeros,
                    _ => {
                        let other = gen_image(rng, kind);
                        Tail::Stale(other.bytes)
                    },
                };
                FileSc {
                    kind,
                    image: img.bytes,
                    op: FOp::SaveCrash { writes, durable, tail },
                    note: String::new(),
                }
            },
            6..=8 => {
                // byzantine file
                let mut b = img.bytes;
                let mut notes = Vec::new();
                match rng.below(7) {
                    6 if kind == Kind::Smx && b.len() >= 48 => {
                        // the 32-byte track name is text: escapes, code page markers, multi-byte
                        // sequences, cut off by the end of the field or not terminated at all
                        let mut name = Vec::new();
                        if rng.chance(1, 2) {
                            // text in one code page: a marker (or none: Latin-1), then letters
                            // and bytes above 0x7f; a second run in another code page sometimes
                            if rng.chance(1, 8) {
                                // text whose first bytes in its own code page look like a byte
                                // order mark once an earlier character has been written in
                                // another page: '‘' + Cyrillic "яю…" (FF FE), or Latin-1 "ï»¿" (EF BB BF)
                                if rng.chance(2, 3) {
                                    name.extend_from_slice(b"^C\x91\xFF\xFE");
                                } else {
                                    name.extend_from_slice(b"^E\xF5^L\xEF\xBB\xBF");
                                }
                            }
                            for _ in 0..rng.usize(1, 2) {
                                if rng.chance(3, 4) {
                                    name.push(b'^');
                                    // single-byte pages: their tables are the same in both
                                    // directions (the double-byte decoders accept extension
                                    // characters that the encoders do not produce)
                                    name.push(*rng.pick(b"LGCETB"));
                                }
                                for _ in 0..rng.usize(1, 10) {
                                    name.push(match rng.below(4) {
                                        0 => *rng.pick(b"abcXYZ 019"),
                                        1 => 0x80 + rng.below(0x20) as u8,
                                        _ => 0xA0 + rng.below(0x60) as u8,
                                    });
                                }
                            }
                        } else {
                            for _ in 0..rng.usize(0, 3) {
                                name.push(*rng.pick(b"a1 ^\x01\xE9"));
                            }
                            while name.len() < 32 && !rng.chance(1, 6) {
                                let a: &[u8] = *rng.pick(&gen::TEXT_ATOMS[..]);
                                name.extend_from_slice(a);
                            }
                        }
                        name.resize(32, if rng.chance(1, 4) { b'x' } else { 0 });
                        b[16..48].copy_from_slice(&name[..32]);
                        let code_page_text = name.windows(2).all(|w| w[0] != b'^' || b"LGCETB".contains(&w[1])) && name.last() != Some(&b'^');
                        notes.push(format!("track name{} := {}", if code_page_text { " (single-byte code pages)" } else { "" }, hex::enc(&name[..32])));
                    },
                    0 => {
                        let n = rng.usize(0, 300);
                        b = rng.bytes(n);
                        if rng.chance(2, 3) {
                            let magic: &[u8] = if kind == Kind::Pth { b"LFSPTH" } else { b"LFSSMX" };
                            let _ = b.splice(0..0, magic.iter().copied());
                        }
                        notes.push("random bytes".to_string());
                    },
                    1 | 2 | 3 => {
                        let k = rng.small(3) as usize;
                        for _ in 0..k {
                            let off = *rng.pick(&img.counts);
                            let cur = i32::from_le_bytes([b[off], b[off + 1], b[off + 2], b[off + 3]]);
                            let nv: i32 = match rng.below(8) {
                                0 => -1,
                                1 => i32::MAX,
                                2 => i32::MIN,
                                3 => cur.wrapping_add(1),
                                4 => 65_536,
                                5 => 0x0100_0000,
                                6 => cur.wrapping_add(rng.range(1, 1000) as i32),
                                _ => rng.next_u64() as i32,
                            };
                            b[off..off + 4].copy_from_slice(&nv.to_le_bytes());
                            notes.push(format!("count at {} := {}", off, nv));
                        }
                    },
                    4 => {
                        for _ in 0..rng.small(8) {
                            if b.is_empty() {
                                break;
                            }
                            let i = rng.usize(0, b.len() - 1);
                            let bit = rng.below(8);
                            b[i] ^= 1 << bit;
                            notes.push(format!("flip bit {} of byte {}", bit, i));
                        }
                    },
                    _ => {
                        let g = rng.usize(1, 200);
                        let extra = rng.bytes(g);
                        b.extend_from_slice(&extra);
                        notes.push(format!("{} bytes of trailing garbage", g));
                    },
                }
                let n = rng.usize(0, 100);
                let reads = if rng.chance(1, 2) { vec![] } else { gen_disk_script(rng, n, false, false) };
                FileSc {
                    kind,
                    image: b,
                    op: FOp::Hostile { reads },
                    note: notes.join("; "),
                }
            },
            _ => {
                // real files: valid, truncated, or with hostile count fields
                let mut note = String::new();
                let image = match rng.below(4) {
                    0 => {
                        // loaders that read block-wise meet the end of a cut file at a block
                        // boundary: cut at multiples of the usual block sizes as well as anywhere
                        let img = if kind == Kind::Pth && rng.chance(1, 2) {
                            let n = rng.usize(205, 1700);
                            gen_pth_n(rng, n)
                        } else {
                            img
                        };
                        let len = img.bytes.len();
                        let cut = if len > 600 && rng.chance(2, 3) {
                            let blk = *rng.pick(&[512usize, 4096, 8192, 8192, 16_384, 65_536]);
                            let blk = if blk >= len { 512 } else { blk };
                            blk * rng.usize(1, (len - 1) / blk)
                        } else {
                            rng.usize(0, len.saturating_sub(1))
                        };
                        note = format!("truncated to {}", cut);
                        if cut % 512 == 0 && cut > 0 {
                            note.push_str(" (a block boundary)");
                        }
                        img.bytes[..cut].to_vec()
                    },
                    1 => {
                        let mut b = img.bytes;
                        let off = *rng.pick(&img.counts);
                        let nv: i32 = *rng.pick(&[-1, i32::MAX, i32::MIN, 0x0400_0000, 65_536, 53_687_092]);
                        b[off..off + 4].copy_from_slice(&nv.to_le_bytes());
                        note = format!("count at {} := {}", off, nv);
                        b
                    },
                    _ => img.bytes,
                };
                FileSc {
                    kind,
                    image,
                    op: FOp::RealFile,
                    note,
                }
            },
        }
    }

    fn execute(&self, sc: &FileSc) -> RunReport {
        let mut rep = RunReport::default();
        let mut h = Fnv::default();
        let mut sig = Fnv::default();
        let tag = format!("[{:?}]", sc.kind);
        let len = sc.image.len();
        sig.u64(sc.kind as u64);
        sig.u64((len as u64 + 1).ilog2() as u64);
        rep.nontrivial = true;
        let fire = |rep: &mut RunReport, f: [u64; 4]| {
            if f[0] > 0 {
                rep.fault("short_transfer");
            }
            if f[1] > 0 {
                rep.fault("eintr");
            }
            if f[2] > 0 {
                rep.fault("eio");
            }
            if f[3] > 0 {
                rep.fault("enospc");
            }
        };

        // fault-free reference parse of the image as given
        let (base, base_peak, _) = parse_mem(sc.kind, &sc.image, &[]);
        let base = match base {
            Err(p) => {
                rep.violations.push(v("file.panic", format!("{} parsing {} bytes panicked: {} [{}]", tag, len, p, sc.note)));
                rep.trace_hash = h.finish();
                rep.signature = sig.finish();
                return rep;
            },
            Ok(r) => r,
        };
        h.write(match &base {
            Ok(p) => describe(p),
            Err(e) => format!("err:{}", e),
        }.as_bytes());
        if base_peak > alloc_bound(len) {
            rep.violations.push(v(
                "file.allocation",
                format!("{} parsing {} bytes allocated {} bytes at peak (bound {}) [{}]", tag, len, base_peak, alloc_bound(len), sc.note),
            ));
        }

        match &sc.op {
            FOp::RoundTrip { reads, offset } => {
                if len > 300_000 {
                    rep.probe("file_beyond_65535_elements");
                }
                sig.u64(1);
                sig.u64(*offset as u64);
                sig.u64(reads.iter().fold(0u64, |a, w| a | match w {
                    DiskEv::Short(k) if *k < 4 => 1,
                    DiskEv::Short(_) => 16,
                    DiskEv::Interrupted => 2,
                    DiskEv::Eio => 4,
                    DiskEv::Full => 8,
                }));
                sig.u64(reads.len().min(32) as u64);
                rep.nontrivial = !reads.is_empty() || *offset > 0;
                if *offset > 0 {
                    if let Ok(p) = &base {
                        rep.probe("round_trip_at_stream_offset");
                        // read behind a prefix
                        let mut whole = vec![0xA5u8; *offset];
                        whole.extend_from_slice(&sc.image);
                        let mut rd = Cursor::new(whole);
                        rd.set_position(*offset as u64);
                        match guarded(|| parse(sc.kind, &mut rd)) {
                            Err(m) => rep.violations.push(v("file.panic", format!("{} parsing behind a {}-byte prefix panicked: {}", tag, offset, m))),
                            Ok(Err(e)) => rep.violations.push(v("file.offset_changed_result", format!("{} a valid file was rejected when it starts at stream offset {}: {}", tag, offset, e))),
                            Ok(Ok(p2)) => {
                                let mut w = Cursor::new(Vec::new());
                                let _ = save(&p2, &mut w);
                                if w.into_inner() != sc.image {
                                    rep.violations.push(v("file.offset_changed_result", format!("{} the same bytes parse to a different structure at stream offset {}: {} vs {}", tag, offset, describe(&p2), describe(p))));
                                }
                            },
                        }
                        // write behind a prefix, over existing (dirty) content: an in-place overwrite
                        // of an older file, a reused output buffer
                        let mut wr = Cursor::new(vec![0x5Au8; *offset + len + 16]);
                        wr.set_position(*offset as u64);
                        match guarded(|| save(p, &mut wr)) {
                            Err(m) => rep.violations.push(v("file.panic", format!("{} writing behind a {}-byte prefix panicked: {}", tag, offset, m))),
                            Ok(Err(e)) => rep.violations.push(v("file.write_failed", format!("{} writing at stream offset {} failed: {}", tag, offset, e))),
                            Ok(Ok(())) => {
                                let out = wr.into_inner();
                                if out.len() < *offset + len || out[*offset..*offset + len] != sc.image[..] {
                                    rep.violations.push(v("file.offset_changed_result", format!("{} written at stream offset {} the file is {} bytes instead of {} / differs", tag, offset, out.len().saturating_sub(*offset), len)));
                                }
                            },
                        }
                    }
                }
                match &base {
                    Err(e) => rep.violations.push(v("file.valid_rejected", format!("{} a canonical {}-byte file was rejected: {}", tag, len, e))),
                    Ok(p) => {
                        // overwrite in place: the output already holds other bytes
                        let mut dirty = Cursor::new(vec![0xC3u8; len + 8]);
                        if let Ok(Ok(())) = guarded(|| save(p, &mut dirty)) {
                            let out = dirty.into_inner();
                            if out[..len] != sc.image[..] {
                                let i = out.iter().zip(sc.image.iter()).position(|(a, b)| a != b).unwrap_or(0);
                                rep.violations.push(v(
                                    "file.roundtrip_bytes",
                                    format!("{} written over existing content the file differs from the one read at offset {} (byte {:#04x} of the old content shows through: something was skipped instead of written)", tag, i, out[i]),
                                ));
                            }
                        }
                        let mut w = Cursor::new(Vec::new());
                        match guarded(|| save(p, &mut w)) {
                            Err(m) => rep.violations.push(v("file.panic", format!("{} writing panicked: {}", tag, m))),
                            Ok(Err(e)) => rep.violations.push(v("file.write_failed", format!("{} writing a parsed file to memory failed: {}", tag, e))),
                            Ok(Ok(())) => {
                                let out = w.into_inner();
                                if out != sc.image {
                                    let i = out.iter().zip(sc.image.iter()).position(|(a, b)| a != b).unwrap_or(out.len().min(len));
                                    rep.violations.push(v(
                                        "file.roundtrip_bytes",
                                        format!("{} parse then write of a canonical file: {} bytes in, {} bytes out, first difference at offset {} ({})", tag, len, out.len(), i, describe(p)),
                                    ));
                                } else {
                                    // second generation equals the first
                                    match parse_mem(sc.kind, &out, &[]).0 {
                                        Ok(Ok(p2)) => {
                                            let mut w2 = Cursor::new(Vec::new());
                                            let _ = save(&p2, &mut w2);
                                            if w2.into_inner() != out || describe(&p2) != describe(p) {
                                                rep.violations.push(v("file.roundtrip_structure", format!("{} re-parsing the written file gives a different structure: {} vs {}", tag, describe(&p2), describe(p))));
                                            }
                                        },
                                        other => rep.violations.push(v("file.roundtrip_structure", format!("{} the written file does not parse again: {:?}", tag, other.map(|r| r.map(|_| ()).err())))),
                                    }
                                }
                            },
                        }
                        // the same parse through the faulty disk
                        if !reads.is_empty() {
                            let (r, peak, fired) = parse_mem(sc.kind, &sc.image, reads);
                            fire(&mut rep, fired);
                            let hard = fired[2] > 0;
                            match r {
                                Err(m) => rep.violations.push(v("file.panic", format!("{} parsing under read faults panicked: {}", tag, m))),
                                Ok(Ok(p2)) => {
                                    let mut w2 = Cursor::new(Vec::new());
                                    let _ = save(&p2, &mut w2);
                                    if w2.into_inner() != sc.image {
                                        rep.violations.push(v("file.read_fault_changed_result", format!("{} short reads / EINTR changed the parsed structure: {} vs {}", tag, describe(&p2), describe(p))));
                                    }
                                    if hard {
                                        rep.probe("eio_not_reached_or_after_success");
                                    }
                                },
                                Ok(Err(e)) => {
                                    if !hard {
                                        rep.violations.push(v("file.read_fault_changed_result", format!("{} short reads / EINTR made a valid file fail: {}", tag, e)));
                                    } else {
                                        rep.probe("eio_rejected");
                                    }
                                },
                            }
                            if peak > alloc_bound(len) {
                                rep.violations.push(v("file.allocation", format!("{} {} bytes at peak under read faults", tag, peak)));
                            }
                        }
                    },
                }
            },
            FOp::Truncations { cuts } => {
                sig.u64(2);
                sig.u64(cuts.len().min(64) as u64);
                sig.u64(len as u64 % 97);
                if base.is_err() {
                    rep.violations.push(v("file.valid_rejected", format!("{} a canonical {}-byte file was rejected: {:?}", tag, len, base.as_ref().err())));
                } else {
                    let all: Vec<usize> = if cuts.is_empty() { (0..len).collect() } else { cuts.clone() };
                    for c in all {
                        if c >= len {
                            continue;
                        }
                        rep.probe("truncation_points");
                        let (r, peak, _) = parse_mem(sc.kind, &sc.image[..c], &[]);
                        match r {
                            Err(m) => {
                                rep.violations.push(v("file.panic", format!("{} parsing the first {} of {} bytes panicked: {}", tag, c, len, m)));
                                break;
                            },
                            Ok(Ok(p)) => {
                                rep.violations.push(v(
                                    "file.truncated_accepted",
                                    format!("{} the first {} bytes of a valid {}-byte file were accepted as {}", tag, c, len, describe(&p)),
                                ));
                                break;
                            },
                            Ok(Err(_)) => {},
                        }
                        if peak > alloc_bound(c) {
                            rep.violations.push(v("file.allocation", format!("{} parsing a {}-byte prefix allocated {} bytes at peak", tag, c, peak)));
                            break;
                        }
                    }
                }
            },
            FOp::Prefix => {
                sig.u64(3);
                rep.probe("truncation_points");
                if let Ok(p) = &base {
                    rep.violations.push(v("file.truncated_accepted", format!("{} {} — accepted as {}", tag, sc.note, describe(p))));
                }
            },
            FOp::SaveCrash { writes, durable, tail } => {
                sig.u64(4);
                sig.u64(match tail {
                    Tail::Cut => 0,
                    Tail::Zeros => 1,
                    Tail::Stale(_) => 2,
                });
                // where the crash lands relative to the file (16 buckets) and how the disk behaved
                sig.u64(durable.map(|k| (k * 16 / len.max(1)) as u64 + 1).unwrap_or(0));
                sig.u64(writes.iter().fold(0u64, |a, w| a | match w {
                    DiskEv::Short(_) => 1,
                    DiskEv::Interrupted => 2,
                    DiskEv::Eio => 4,
                    DiskEv::Full => 8,
                }));
                match &base {
                    Err(e) => rep.violations.push(v("file.valid_rejected", format!("{} a canonical {}-byte file was rejected: {}", tag, len, e))),
                    Ok(p) => {
                        let mut d = DiskWriter::new(writes);
                        let r = guarded(|| save(p, &mut d));
                        fire(&mut rep, d.fired);
                        match &r {
                            Err(m) => rep.violations.push(v("file.panic", format!("{} saving through the faulty disk panicked: {}", tag, m))),
                            Ok(Ok(())) => {
                                // acknowledged: everything must be on the platter
                                if d.platter != sc.image {
                                    rep.violations.push(v(
                                        "file.silent_partial_write",
                                        format!("{} save returned Ok but the disk holds {} bytes that differ from the {}-byte file (short writes / EINTR in the script)", tag, d.platter.len(), len),
                                    ));
                                }
                                rep.probe("save_acknowledged");
                            },
                            Ok(Err(_)) => {
                                rep.probe("save_failed_cleanly");
                                if d.fired[2] == 0 && d.fired[3] == 0 {
                                    rep.violations.push(v("file.write_failed", format!("{} save failed although the disk only answered short writes / EINTR: {:?}", tag, r)));
                                }
                            },
                        }
                        // crash: only the first `durable` accepted bytes survive
                        if let Some(k) = durable {
                            let k = (*k).min(d.accepted);
                            let mut surv = d.survivor(k);
                            let strict_prefix = surv.len() < len && sc.image.starts_with(&surv);
                            match tail {
                                Tail::Cut => {},
                                Tail::Zeros => {
                                    if surv.len() < len {
                                        surv.resize(len, 0);
                                        rep.fault("crash_zero_tail");
                                    }
                                },
                                Tail::Stale(o) => {
                                    if surv.len() < o.len() {
                                        let from = surv.len();
                                        surv.extend_from_slice(&o[from..]);
                                        rep.fault("crash_stale_tail");
                                    }
                                },
                            }
                            rep.fault("crash");
                            let (r2, peak, _) = parse_mem(sc.kind, &surv, &[]);
                            h.write(&(surv.len() as u64).to_le_bytes());
                            match r2 {
                                Err(m) => rep.violations.push(v("file.panic", format!("{} parsing the survivor of a crash after {} durable bytes panicked: {}", tag, k, m))),
                                Ok(Ok(p2)) => {
                                    if *tail == Tail::Cut && strict_prefix {
                                        rep.violations.push(v(
                                            "file.truncated_accepted",
                                            format!("{} crash after {} of {} bytes: the surviving prefix was accepted as {}", tag, k, len, describe(&p2)),
                                        ));
                                    } else if surv == sc.image {
                                        rep.probe("crash_after_complete_image");
                                        let mut w = Cursor::new(Vec::new());
                                        let _ = save(&p2, &mut w);
                                        if w.into_inner() != sc.image {
                                            rep.violations.push(v("file.roundtrip_bytes", format!("{} complete survivor re-serialises differently", tag)));
                                        }
                                    }
                                },
                                Ok(Err(_)) => {
                                    if surv == sc.image {
                                        rep.violations.push(v("file.valid_rejected", format!("{} the complete survivor of a crash was rejected", tag)));
                                    }
                                    if *tail == Tail::Cut && strict_prefix {
                                        rep.probe("crash_prefix_rejected");
                                    }
                                },
                            }
                            if peak > alloc_bound(surv.len()) {
                                rep.violations.push(v("file.allocation", format!("{} parsing a {}-byte crash survivor allocated {} bytes at peak (bound {})", tag, surv.len(), peak, alloc_bound(surv.len()))));
                            }
                        }
                    },
                }
            },
            FOp::Hostile { reads } => {
                sig.u64(5);
                sig.write(sc.note.as_bytes());
                sig.u64(len as u64 % 97);
                rep.probe("hostile_inputs");
                if base.is_ok() {
                    rep.probe("hostile_accepted");
                } else {
                    rep.probe("hostile_rejected");
                }
                if sc.note.contains("count at") {
                    rep.probe("hostile_count_field");
                }
                // whatever was accepted is a parsed file: written and parsed again it must be
                // the same structure (what is compared: the text fields, and the bytes of a
                // second save against those of the first)
                if let Ok(p1) = &base {
                    let again = guarded(|| {
                        let mut w = Cursor::new(Vec::new());
                        save(p1, &mut w)?;
                        let b2 = w.into_inner();
                        let p2 = parse(sc.kind, &mut Cursor::new(b2.clone()))?;
                        let mut w3 = Cursor::new(Vec::new());
                        save(&p2, &mut w3)?;
                        Ok::<_, String>((b2, p2, w3.into_inner()))
                    });
                    match again {
                        Err(m) => rep.violations.push(v("file.panic", format!("{} writing / re-parsing an accepted hostile file panicked: {} [{}]", tag, m, sc.note))),
                        Ok(Err(e)) => rep.violations.push(v("file.reparse_differs", format!("{} an accepted file could not be written and parsed again: {} [{}]", tag, e, sc.note))),
                        Ok(Ok((b2, p2, b3))) => {
                            rep.probe("hostile_accepted_roundtrip");
                            let text = |p: &Parsed| match p {
                                Parsed::Smx(x) => x.track.clone(),
                                Parsed::Pth(_) => String::new(),
                            };
                            let (t1, t2) = (text(p1), text(&p2));
                            // text fidelity is C10's: it promises encode-then-decode only for
                            // text without a caret whose characters exist in a code page; a
                            // parsed name with a caret left in it, or with bytes that were not
                            // valid in their code page (U+FFFD), is outside that promise
                            // (and C11 truncates the encoded text to the field: a re-encoding that
                            // needs more code page markers than the original may not fit any more)
                            let fits = sc.kind != Kind::Smx || b2.get(47) == Some(&0);
                            let promised = !t1.contains('^') && !t1.contains('\u{FFFD}') && fits && (t1.is_ascii() || sc.note.contains("(single-byte code pages)") || !sc.note.contains("track name"));
                            if promised {
                                rep.probe("parsed_text_written_and_parsed_again");
                                if !t1.is_ascii() {
                                    rep.probe("parsed_non_ascii_text_written_and_parsed_again");
                                }
                            }
                            if t1 != t2 && promised {
                                let lossy = false;
                                rep.violations.push(v(
                                    "file.text_roundtrip",
                                    format!(
                                        "{} track name {:?} ({}) is written as {} and parsed again as {:?}{} [{}]",
                                        tag,
                                        t1,
                                        t1.chars().map(|c| format!("U+{:04X}", c as u32)).collect::<Vec<_>>().join(" "),
                                        hex::enc(&b2[16..48.min(b2.len())]),
                                        t2,
                                        if lossy { " — the first parse already replaced undecodable bytes by U+FFFD" } else { "" },
                                        sc.note
                                    ),
                                ));
                            } else if t1 == t2 && (describe(p1) != describe(&p2) || b3 != b2) {
                                rep.violations.push(v("file.reparse_differs", format!("{} written and parsed again: {} became {} [{}]", tag, describe(p1), describe(&p2), sc.note)));
                            }
                        },
                    }
                }
                if !reads.is_empty() {
                    let (r, peak, fired) = parse_mem(sc.kind, &sc.image, reads);
                    fire(&mut rep, fired);
                    match r {
                        Err(m) => rep.violations.push(v("file.panic", format!("{} parsing a hostile file under read faults panicked: {} [{}]", tag, m, sc.note))),
                        Ok(r) => {
                            if r.is_ok() != base.is_ok() {
                                rep.violations.push(v("file.read_fault_changed_result", format!("{} short reads / EINTR changed accept/reject of a hostile file [{}]", tag, sc.note)));
                            }
                        },
                    }
                    if peak > alloc_bound(len) {
                        rep.violations.push(v("file.allocation", format!("{} {} bytes at peak under read faults [{}]", tag, peak, sc.note)));
                    }
                }
            },
            FOp::RealFile => {
                sig.u64(6);
                rep.probe("real_file");
                if sc.note.contains("count at") {
                    rep.probe("real_file_hostile_count");
                }
                let r = guarded(|| real_file(sc));
                match r {
                    Err(m) => rep.violations.push(v("file.panic", format!("{} from_file / from_pathbuf panicked: {}", tag, m))),
                    Ok(Err(None)) => rep.probe("harness_tempfile_error"),
                    Ok(Err(Some(d))) => rep.violations.push(v("file.real_file", format!("{} {}", tag, d))),
                    Ok(Ok(())) => {},
                }
            },
        }
        rep.trace_hash = h.finish();
        rep.signature = sig.finish();
        rep
    }

    fn trace(&self, sc: &FileSc) -> Value {
        let (base, peak, _) = parse_mem(sc.kind, &sc.image, &[]);
        json!({
            "image_len": sc.image.len(),
            "fault_free_parse": match base { Err(p) => format!("panic: {}", p), Ok(Ok(p)) => describe(&p), Ok(Err(e)) => format!("error: {}", e) },
            "peak_alloc": peak,
            "note": sc.note,
        })
    }

    /// State that outlives one save (staging buffers kept per thread or per process): an SMX
    /// save that fails at the k-th write call — somewhere in the header, the track name included
    /// — executed before the scenario in the same thread.
    fn preludes(&self, _sc: &FileSc) -> Vec<FileSc> {
        let mut b = b"LFSSMX".to_vec();
        b.extend_from_slice(&[0, 1, 0, 0, 0, 0]);
        b.extend_from_slice(&[0; 4]);
        b.extend_from_slice(b"PRELUDE_TRACK_NAME_0123456789ab\0");
        b.extend_from_slice(&[0, 0, 0]);
        b.extend_from_slice(&[0; 9]);
        b.extend_from_slice(&0i32.to_le_bytes());
        b.extend_from_slice(&0i32.to_le_bytes());
        (0..14usize)
            .map(|k| {
                let mut writes = vec![DiskEv::Short(usize::MAX >> 1); k];
                writes.push(DiskEv::Eio);
                FileSc {
                    kind: Kind::Smx,
                    image: b.clone(),
                    op: FOp::SaveCrash { writes, durable: None, tail: Tail::Cut },
                    note: format!("prelude: save failing at write call {}", k),
                }
            })
            .collect()
    }
    fn shrink(&self, sc: &FileSc) -> Vec<FileSc> {
        let mut c = Vec::new();
        // simplify the op's scripts
        match &sc.op {
            FOp::RoundTrip { reads, offset } if !reads.is_empty() => {
                let mut s = sc.clone();
                s.op = FOp::RoundTrip { reads: vec![], offset: *offset };
                c.push(s);
                for i in 0..reads.len().min(80) {
                    let mut r = reads.clone();
                    let _ = r.remove(i);
                    let mut s = sc.clone();
                    s.op = FOp::RoundTrip { reads: r, offset: *offset };
                    c.push(s);
                }
            },
            FOp::SaveCrash { writes, durable, tail } => {
                if !writes.is_empty() {
                    let mut s = sc.clone();
                    s.op = FOp::SaveCrash { writes: vec![], durable: *durable, tail: tail.clone() };
                    c.push(s);
                }
                if *tail != Tail::Cut {
                    let mut s = sc.clone();
                    s.op = FOp::SaveCrash { writes: writes.clone(), durable: *durable, tail: Tail::Cut };
                    c.push(s);
                }
            },
            FOp::Truncations { cuts } if cuts.len() != 1 => {
                // find the one cut that fails
                let all: Vec<usize> = if cuts.is_empty() { (0..sc.image.len()).collect() } else { cuts.clone() };
                for x in all.into_iter().take(3000) {
                    let mut s = sc.clone();
                    s.op = FOp::Truncations { cuts: vec![x] };
                    c.push(s);
                }
            },
            FOp::Hostile { reads } if !reads.is_empty() => {
                let mut s = sc.clone();
                s.op = FOp::Hostile { reads: vec![] };
                c.push(s);
            },
            _ => {},
        }
        // shorter hostile images
        if matches!(sc.op, FOp::Hostile { .. } | FOp::Prefix) {
            let n = sc.image.len();
            for k in [n / 2, n * 3 / 4, n.saturating_sub(1)] {
                if k < n {
                    let mut s = sc.clone();
                    s.image.truncate(k);
                    c.push(s);
                }
            }
        }
        c
    }

    fn rule(&self) -> String {
        "Each case is a generated canonical PTH or SMX image (0..400 nodes / 0..120 objects with 0..60 points and triangles / 0..50 checkpoints; numeric payloads drawn from extreme integers and arbitrary float bit patterns incl. quiet and signalling NaNs, infinities, -0.0; ASCII track names) plus one operation: round trip through a disk with short reads / EINTR / EIO; every truncation point (all for files <= 1500 bytes, structural and sampled ones above); save through a disk with short writes / EINTR / EIO / ENOSPC, crash after k durable bytes with the survivor being a clean prefix, a zero-filled tail or stale bytes of another file, then re-open and parse; byzantine files (random bytes, count fields set to -1 / i32::MAX / i32::MIN / count+1 / large values, bit flips, trailing garbage); real temporary files through from_file / from_pathbuf and a missing path. The sweep cuts the two shipped sample files. Every parse runs under catch_unwind with the peak allocation measured (bound 64 x input length + 64 KiB). All cases count as non-trivial except fault-free round trips at offset 0; distinct = (format, log2 size, operation, and per operation: disk fault kinds and script length / crash position bucket and tail kind / number of cut points / the exact mutation list).".into()
    }
    fn assumptions(&self) -> Vec<String> {
        vec![
            "the library has no durability protocol of its own (no fsync, no rename): 'crash' means the writer dies after k accepted bytes and the survivor is whatever those bytes leave on the platter, optionally extended by zeros or stale data".into(),
            "allocation failure is not injected (it aborts the process in Rust); only allocation size is bounded".into(),
            "the pure round-trip half of the statement is covered only as the fault-free baseline of this workload".into(),
            "track names of canonical files (byte-identity round trips) are ASCII without '^', in a fifth of the cases with a few fixed Latin-1 byte pairs; hostile names (escapes, code page markers, multi-byte sequences, unterminated) are checked for no panic / bounded allocation, and for equality after write + re-parse only where C10 promises text fidelity: no caret left in the parsed text, no U+FFFD, single-byte code pages only, re-encoded text still fitting the 32-byte field. Outside that (a literal ^8 followed by bytes above 0x7f, stripped markers that form new markers, Big5/GBK extension characters) the text codec does not round-trip on the unchanged tree; DESIGN.md 12.2 (round 7) records this as an observation outside C17 as read with C10's scope".into(),
        ]
    }
    fn components(&self) -> Value {
        json!({
            "real": ["insim_pth::Pth (BinRead/BinWrite, from_file, from_pathbuf)", "insim_smx::Smx (same)", "insim_core::point::Point", "binrw count handling", "real temporary files (RealFile op only)"],
            "stub": ["disk (in-memory platter with scripted short/EINTR/EIO/ENOSPC and crash)", "allocator wrapper (counting only)"],
        })
    }
    fn required(&self, _tier: Tier) -> Vec<&'static str> {
        vec![
            "short_transfer",
            "eintr",
            "eio",
            "enospc",
            "crash",
            "crash_zero_tail",
            "crash_stale_tail",
            "crash_prefix_rejected",
            "crash_after_complete_image",
            "save_acknowledged",
            "save_failed_cleanly",
            "truncation_points",
            "hostile_inputs",
            "hostile_count_field",
            "hostile_rejected",
            "eio_rejected",
            "real_file",
            "real_file_hostile_count",
            "round_trip_at_stream_offset",
        ]
    }
}

/// from_file / from_pathbuf on a real temporary file must agree with the in-memory parse.
fn real_file(sc: &FileSc) -> Result<(), Option<String>> {
    let dir = tempfile::tempdir().map_err(|_| None)?;
    let path = dir.path().join(match sc.kind {
        Kind::Pth => "x.pth",
        Kind::Smx => "x.smx",
    });
    std::fs::write(&path, &sc.image).map_err(|_| None)?;
    let mem = parse(sc.kind, &mut Cursor::new(sc.image.clone()));
    let reser = |p: &Parsed| {
        let mut w = Cursor::new(Vec::new());
        let _ = save(p, &mut w);
        w.into_inner()
    };
    let want: Result<Vec<u8>, ()> = mem.as_ref().map(reser).map_err(|_| ());
    let mut f = std::fs::File::open(&path).map_err(|_| None)?;
    let via_file: Result<Vec<u8>, String> = match sc.kind {
        Kind::Pth => Pth::from_file(&mut f).map(|p| reser(&Parsed::Pth(p))).map_err(|e| e.to_string()),
        Kind::Smx => Smx::from_file(&mut f).map(|p| reser(&Parsed::Smx(p))).map_err(|e| e.to_string()),
    };
    let via_path: Result<Vec<u8>, String> = match sc.kind {
        Kind::Pth => Pth::from_pathbuf(&path).map(|p| reser(&Parsed::Pth(p))).map_err(|e| e.to_string()),
        Kind::Smx => Smx::from_pathbuf(&path).map(|p| reser(&Parsed::Smx(p))).map_err(|e| e.to_string()),
    };
    for (name, got) in [("from_file", &via_file), ("from_pathbuf", &via_path)] {
        match (&want, got) {
            (Ok(a), Ok(b)) if a == b => {},
            (Err(()), Err(_)) => {},
            (Ok(_), Ok(_)) => return Err(Some(format!("{} parsed a different structure than the in-memory parse of the same {} bytes", name, sc.image.len()))),
            (Ok(_), Err(e)) => return Err(Some(format!("{} rejected a file the in-memory parse accepts: {}", name, short_err(e)))),
            (Err(()), Ok(_)) => return Err(Some(format!("{} accepted a file the in-memory parse rejects", name))),
        }
    }
    // the same path again after the file was replaced by another one of the same length and
    // with the same modification time (cp -p, rsync -t, two writes within one clock tick): what
    // is loaded must be what is in the file now
    if !sc.image.is_empty() {
        let mtime = std::fs::metadata(&path).and_then(|m| m.modified()).ok();
        let mut other = sc.image.clone();
        let last = other.len() - 1;
        other[last] ^= 0xFF;
        std::fs::write(&path, &other).map_err(|_| None)?;
        if let Some(t) = mtime {
            if let Ok(f) = std::fs::OpenOptions::new().write(true).open(&path) {
                let _ = f.set_modified(t);
            }
        }
        let mem2 = parse(sc.kind, &mut Cursor::new(other.clone()));
        let want2: Result<Vec<u8>, ()> = mem2.as_ref().map(reser).map_err(|_| ());
        let again: Result<Vec<u8>, String> = match sc.kind {
            Kind::Pth => Pth::from_pathbuf(&path).map(|p| reser(&Parsed::Pth(p))).map_err(|e| e.to_string()),
            Kind::Smx => Smx::from_pathbuf(&path).map(|p| reser(&Parsed::Smx(p))).map_err(|e| e.to_string()),
        };
        match (&want2, &again) {
            (Ok(a), Ok(b)) if a == b => {},
            (Err(()), Err(_)) => {},
            _ => {
                return Err(Some(format!(
                    "from_pathbuf of the same path after the file was replaced (same length, same mtime) does not reflect the new content: in-memory parse of the new bytes {}, from_pathbuf {}",
                    if want2.is_ok() { "succeeds" } else { "fails" },
                    match &again { Ok(b) if Some(b) == want.as_ref().ok() => "returned the OLD file's structure", Ok(_) => "returned something else", Err(_) => "failed" }
                )))
            },
        }
    }
    // a missing path is an error, not a panic and not an empty structure
    let missing = dir.path().join("does-not-exist");
    let not_found = match sc.kind {
        Kind::Pth => matches!(Pth::from_pathbuf(&missing), Err(insim_pth::Error::IO { kind: io::ErrorKind::NotFound, .. })),
        Kind::Smx => matches!(Smx::from_pathbuf(&missing), Err(insim_smx::Error::IO { kind: io::ErrorKind::NotFound, .. })),
    };
    if !not_found {
        return Err(Some("from_pathbuf on a missing path did not return an IO NotFound error".into()));
    }
    Ok(())
}
