//! C18 — the handshake carries exactly the configured connection options.

use std::{
    io::Read,
    net::{SocketAddr, TcpListener, UdpSocket},
    sync::{Arc, Mutex},
    time::Duration,
};

use insim::{
    identifiers::RequestId,
    insim::{Isi, IsiFlags},
    net::Codec,
    Packet,
};
use serde::{Deserialize, Serialize};
use serde_json::{json, Value};

use crate::{
    driver::{Prop, RunReport, Tier},
    gen::{self, GenStats, WriteCfg},
    link::{LinkState, SimStream},
    model::{guarded, ref_encode},
    oracle::v,
    rng::{Fnv, Rng},
    scenario::{hex, Imp, SizeMode, WriteEv},
};

pub struct C18;

#[derive(Serialize, Deserialize, Clone, Debug, PartialEq, Eq)]
pub enum BCall {
    Tcp,
    /// udp(remote, local): None = no local address; Some(p) = 127.0.0.1:p (p may be 0)
    Udp(Option<u16>),
    Relay,
    Compressed,
    Uncompressed,
    VerifyVersion(bool),
    TcpNodelay(bool),
    ConnectTimeoutMs(u64),
    /// connect_timeout(Duration::from_secs(..)): "no timeout" is commonly spelt Duration::MAX
    ConnectTimeoutSecs(u64),
    /// the application asks the builder for its ISI at this point (to log it, to connect once
    /// already) and carries on configuring the same builder afterwards
    Isi,
    /// one of the ten single-flag setters, by index
    Flag(u8, bool),
    /// wholesale replacement (raw bits, truncated to defined flags by the library type)
    Flags(u16),
    /// wholesale replacement keeping every bit (IsiFlags::from_bits_retain): bits without a
    /// name are reserved / future ISF flags and travel unchanged
    FlagsRetain(u16),
    Prefix(Option<u8>),
    IntervalMs(Option<u32>),
    Iname(Option<String>),
    Admin(Option<String>),
    Reqi(u8),
    RelaySelectHost(Option<String>),
    RelayAdmin(Option<String>),
    RelaySpec(Option<String>),
    RelayWebsocket(bool),
}

#[derive(Serialize, Deserialize, Clone, Debug, PartialEq, Eq)]
pub enum IoPart {
    /// only builder.isi() against the model
    None,
    /// Framed::handshake(builder.isi()) over the simulated link with this write script;
    /// `after_failed_write`: the application first tried to write a packet the encoder refuses
    /// on the same connection (that must leave no trace in the handshake)
    SimHandshake {
        imp: Imp,
        writes: Vec<WriteEv>,
        #[serde(default)]
        after_failed_write: bool,
    },
    /// the real connect_blocking / connect_async against a loopback listener / socket
    Connect { imp: Imp },
}

#[derive(Serialize, Deserialize, Clone, Debug, PartialEq, Eq)]
pub struct BuilderSc {
    pub calls: Vec<BCall>,
    pub io: IoPart,
    /// run with a tracing subscriber that enables every span and event
    #[serde(default)]
    pub trace: bool,
}

pub const FLAG_BITS: [u16; 10] = [
    1 << 5,  // mci
    1 << 2,  // local
    1 << 3,  // mso_cols
    1 << 4,  // nlp
    1 << 6,  // con
    1 << 7,  // obh
    1 << 8,  // hlv
    1 << 9,  // axm_load
    1 << 10, // axm_edit
    1 << 11, // req_join
];
pub const FLAG_NAMES: [&str; 10] = ["mci", "local", "mso_cols", "nlp", "con", "obh", "hlv", "axm_load", "axm_edit", "req_join"];
const DEFINED: u16 = 0x0FFC;

#[derive(Clone, Debug, PartialEq, Eq)]
struct ModelIsi {
    reqi: u8,
    udpport: u16,
    flags: u16,
    version: u8,
    prefix: u8,
    interval_ms: u32,
    admin: String,
    iname: String,
}

#[derive(Clone, Debug)]
struct ModelB {
    proto: u8, // 0 tcp 1 udp 2 relay
    udp_local: Option<u16>,
    mode: SizeMode,
    flags: u16,
    prefix: Option<u8>,
    interval: Option<u32>,
    iname: Option<String>,
    admin: Option<String>,
    reqi: u8,
}

fn model_of(calls: &[BCall]) -> ModelB {
    let mut m = ModelB {
        proto: 0,
        udp_local: None,
        mode: SizeMode::Compressed,
        flags: 0,
        prefix: None,
        interval: None,
        iname: None,
        admin: None,
        reqi: 0,
    };
    for c in calls {
        match c {
            BCall::Tcp => m.proto = 0,
            BCall::Udp(l) => {
                m.proto = 1;
                m.udp_local = *l;
            },
            BCall::Relay => m.proto = 2,
            BCall::Compressed => m.mode = SizeMode::Compressed,
            BCall::Uncompressed => m.mode = SizeMode::Uncompressed,
            BCall::Flag(i, on) => {
                let b = FLAG_BITS[*i as usize % 10];
                if *on {
                    m.flags |= b
                } else {
                    m.flags &= !b
                }
            },
            BCall::Flags(bits) => m.flags = bits & DEFINED,
            BCall::FlagsRetain(bits) => m.flags = *bits,
            BCall::Prefix(p) => m.prefix = *p,
            BCall::IntervalMs(i) => m.interval = *i,
            BCall::Iname(s) => m.iname = s.clone(),
            BCall::Admin(s) => m.admin = s.clone(),
            BCall::Reqi(r) => m.reqi = *r,
            BCall::VerifyVersion(_)
            | BCall::TcpNodelay(_)
            | BCall::ConnectTimeoutMs(_)
            | BCall::ConnectTimeoutSecs(_)
            | BCall::Isi
            | BCall::RelaySelectHost(_)
            | BCall::RelayAdmin(_)
            | BCall::RelaySpec(_)
            | BCall::RelayWebsocket(_) => {},
        }
    }
    m
}

fn model_isi(m: &ModelB) -> ModelIsi {
    ModelIsi {
        reqi: m.reqi,
        udpport: if m.proto == 1 { m.udp_local.unwrap_or(0) } else { 0 },
        flags: m.flags,
        version: 9,
        prefix: m.prefix.unwrap_or(0),
        interval_ms: m.interval.unwrap_or(0),
        admin: m.admin.clone().unwrap_or_default(),
        iname: m.iname.clone().unwrap_or_else(|| "insim.rs".to_string()),
    }
}

fn to_lib_isi(m: &ModelIsi) -> Isi {
    Isi {
        reqi: RequestId(m.reqi),
        udpport: m.udpport,
        flags: IsiFlags::from_bits_retain(m.flags),
        version: m.version,
        prefix: m.prefix as char,
        interval: Duration::from_millis(m.interval_ms as u64),
        admin: m.admin.clone(),
        iname: m.iname.clone(),
    }
}

fn observe(i: &Isi) -> ModelIsi {
    ModelIsi {
        reqi: i.reqi.0,
        udpport: i.udpport,
        flags: i.flags.bits(),
        version: i.version,
        prefix: i.prefix as u32 as u8,
        interval_ms: i.interval.as_millis() as u32,
        admin: i.admin.clone(),
        iname: i.iname.clone(),
    }
}

fn apply(calls: &[BCall], remote: SocketAddr) -> insim::Builder {
    let mut b = insim::Builder::default().tcp(remote);
    for c in calls {
        b = match c {
            BCall::Tcp => b.tcp(remote),
            BCall::Udp(l) => b.udp(remote, l.map(|p| SocketAddr::from(([127, 0, 0, 1], p)))),
            BCall::Relay => b.relay(),
            BCall::Compressed => b.compressed(),
            BCall::Uncompressed => b.uncompressed(),
            BCall::VerifyVersion(x) => b.verify_version(*x),
            BCall::TcpNodelay(x) => b.tcp_nodelay(*x),
            BCall::ConnectTimeoutMs(ms) => b.connect_timeout(Duration::from_millis(*ms)),
            BCall::ConnectTimeoutSecs(secs) => b.connect_timeout(Duration::from_secs(*secs)),
            BCall::Isi => {
                let _ = b.isi();
                b
            },
            BCall::Flag(i, on) => match i % 10 {
                0 => b.isi_flag_mci(*on),
                1 => b.isi_flag_local(*on),
                2 => b.isi_flag_mso_cols(*on),
                3 => b.isi_flag_nlp(*on),
                4 => b.isi_flag_con(*on),
                5 => b.isi_flag_obh(*on),
                6 => b.isi_flag_hlv(*on),
                7 => b.isi_flag_axm_load(*on),
                8 => b.isi_flag_axm_edit(*on),
                _ => b.isi_flag_req_join(*on),
            },
            BCall::Flags(bits) => b.isi_flags(IsiFlags::from_bits_truncate(*bits)),
            BCall::FlagsRetain(bits) => b.isi_flags(IsiFlags::from_bits_retain(*bits)),
            BCall::Prefix(p) => b.isi_prefix(p.map(|x| x as char)),
            BCall::IntervalMs(i) => b.isi_interval(i.map(|ms| Duration::from_millis(ms as u64))),
            BCall::Iname(s) => b.isi_iname(s.clone()),
            BCall::Admin(s) => b.isi_admin_password(s.clone()),
            BCall::Reqi(r) => b.isi_reqi(RequestId(*r)),
            BCall::RelaySelectHost(s) => b.relay_select_host(s.clone()),
            BCall::RelayAdmin(s) => b.relay_admin_password(s.clone()),
            BCall::RelaySpec(s) => b.relay_spectator_password(s.clone()),
            BCall::RelayWebsocket(x) => b.relay_websocket(*x),
        };
    }
    b
}

fn diff(want: &ModelIsi, got: &ModelIsi) -> Option<String> {
    let mut d = Vec::new();
    if want.reqi != got.reqi {
        d.push(format!("reqi: configured {} got {}", want.reqi, got.reqi));
    }
    if want.udpport != got.udpport {
        d.push(format!("udpport: configured {} got {}", want.udpport, got.udpport));
    }
    if want.flags != got.flags {
        let x = want.flags ^ got.flags;
        let names: Vec<&str> = (0..10).filter(|i| x & FLAG_BITS[*i] != 0).map(|i| FLAG_NAMES[i]).collect();
        d.push(format!("flags: configured {:#06x} got {:#06x} (differ in {:?})", want.flags, got.flags, names));
    }
    if want.version != got.version {
        d.push(format!("version: expected {} got {}", want.version, got.version));
    }
    if want.prefix != got.prefix {
        d.push(format!("prefix: configured {:?} got {:?}", want.prefix as char, got.prefix as char));
    }
    if want.interval_ms != got.interval_ms {
        d.push(format!("interval: configured {} ms got {} ms", want.interval_ms, got.interval_ms));
    }
    if want.admin != got.admin {
        d.push(format!("admin: configured {:?} got {:?}", want.admin, got.admin));
    }
    if want.iname != got.iname {
        d.push(format!("iname: configured {:?} got {:?}", want.iname, got.iname));
    }
    if d.is_empty() {
        None
    } else {
        Some(d.join("; "))
    }
}

fn rand_name(rng: &mut Rng, max: usize) -> String {
    let n = rng.usize(0, max);
    (0..n)
        .map(|_| {
            let c = *rng.pick(b"abcdefghijklmnopqrstuvwxyzABCDEFGHIJKLMNOPQRSTUVWXYZ0123456789 _-.!");
            c as char
        })
        .collect::<String>()
        .trim_end()
        .to_string()
}

fn gen_call(rng: &mut Rng) -> BCall {
    match rng.below(28) {
        24 => BCall::ConnectTimeoutMs(*rng.pick(&[1000u64, 10_000, 3_600_000])),
        25 => BCall::ConnectTimeoutSecs(*rng.pick(&[u64::MAX, 1 << 63, u64::MAX / 1000, 86_400])),
        26 | 27 => BCall::Isi,
        0 => BCall::Tcp,
        1 => BCall::Udp(match rng.below(3) {
            0 => None,
            1 => Some(0),
            _ => Some(rng.range(1024, 65535) as u16),
        }),
        2 => {
            if rng.chance(1, 2) {
                BCall::Compressed
            } else {
                BCall::Uncompressed
            }
        },
        3 => BCall::VerifyVersion(rng.chance(1, 2)),
        4 => BCall::TcpNodelay(rng.chance(1, 2)),
        5..=12 => BCall::Flag(rng.below(10) as u8, rng.chance(2, 3)),
        13 if rng.chance(1, 4) => BCall::FlagsRetain(match rng.below(3) {
            0 => 0xFFFF,
            1 => rng.next_u64() as u16,
            _ => (rng.next_u64() as u16) | 0x9003,
        }),
        13 => BCall::Flags(match rng.below(4) {
            0 => 0,
            1 => DEFINED,
            2 => rng.next_u64() as u16, // includes undefined bits: truncated by the flag type
            _ => FLAG_BITS[rng.below(10) as usize],
        }),
        14 | 15 => BCall::Prefix(if rng.chance(1, 4) { None } else { Some(*rng.pick(b"!#$%&/:;=?@~.") ) }),
        16 | 17 => BCall::IntervalMs(if rng.chance(1, 4) {
            None
        } else {
            Some(*rng.pick(&[0u32, 1, 10, 50, 100, 500, 1000, 8000, 65535, 65536, 100_000, 3_600_000]))
        }),
        18 | 19 => BCall::Iname(if rng.chance(1, 4) {
            None
        } else if rng.chance(1, 5) {
            // longer than the 16-byte wire field and / or non-ASCII: the Isi value must still carry
            // the configured name unchanged (what reaches the wire is the encoder's business)
            let mut s = String::new();
            for _ in 0..rng.usize(10, 24) {
                s.push(*rng.pick(&['a', 'B', '1', '-', 'Ö', 'ä', 'ß', 'é', 'я', '€']));
            }
            Some(s)
        } else {
            Some(rand_name(rng, 15))
        }),
        20 | 21 => BCall::Admin(if rng.chance(1, 4) {
            None
        } else if rng.chance(1, 4) {
            // passwords are sent verbatim: any UTF-8, at most 15 bytes
            let mut s = String::new();
            for _ in 0..rng.usize(1, 8) {
                let c = *rng.pick(&['a', 'Z', '7', 'ä', 'ö', 'é', 'я', 'Ж', '€', '^', 'ß']);
                if s.len() + c.len_utf8() <= 15 {
                    s.push(c);
                }
            }
            Some(s)
        } else {
            Some(rand_name(rng, 15))
        }),
        22 => BCall::Reqi(match rng.below(3) {
            0 => 0,
            1 => 1,
            _ => rng.byte(),
        }),
        _ => match rng.below(4) {
            0 => BCall::RelaySelectHost(Some(rand_name(rng, 12))),
            1 => BCall::RelayAdmin(Some(rand_name(rng, 12))),
            2 => BCall::RelaySpec(Some(rand_name(rng, 12))),
            _ => BCall::RelayWebsocket(rng.chance(1, 2)),
        },
    }
}

/// The IS_ISI frame laid out by hand from the InSim specification (Size, Type = 1, ReqI, Zero,
/// UDPPort u16, Flags u16, InSimVer, Prefix, Interval u16, Admin[16], IName[16]; little endian),
/// independent of the library's encoder. Admin passwords travel verbatim (UTF-8 bytes).
fn expected_frame(mode: SizeMode, m: &ModelIsi) -> Result<Vec<u8>, String> {
    if m.admin.len() > 15 || m.iname.len() > 15 || !m.iname.is_ascii() || m.interval_ms > 65_535 {
        return Err("outside the modelled domain".into());
    }
    let mut f = vec![mode.size_byte(44), 1, m.reqi, 0];
    f.extend_from_slice(&m.udpport.to_le_bytes());
    f.extend_from_slice(&m.flags.to_le_bytes());
    f.push(m.version);
    f.push(m.prefix);
    f.extend_from_slice(&(m.interval_ms as u16).to_le_bytes());
    let mut a = m.admin.as_bytes().to_vec();
    a.resize(16, 0);
    f.extend_from_slice(&a);
    let mut n = m.iname.as_bytes().to_vec();
    n.resize(16, 0);
    f.extend_from_slice(&n);
    // cross-check against the library's encoder: a disagreement on pure ASCII content would be
    // a defect of this model (or a codec defect, which is C01/C02's business): not judged here
    if m.admin.is_ascii() {
        if let Ok(r) = ref_encode(mode, &Packet::Isi(to_lib_isi(m))) {
            if r != f {
                return Err("model and library encoder disagree on ASCII content".into());
            }
        }
    }
    Ok(f)
}

impl C18 {
    fn execute_inner(&self, sc: &BuilderSc) -> RunReport {
        let mut rep = RunReport::default();
        let mut h = Fnv::default();
        let m = model_of(&sc.calls);
        let want = model_isi(&m);
        let dummy: SocketAddr = "127.0.0.1:29999".parse().unwrap();

        // signature: which setters, final proto, io kind
        let mut sig = Fnv::default();
        let mut kinds = 0u32;
        for c in &sc.calls {
            kinds |= 1 << (match c {
                BCall::Tcp => 0,
                BCall::Udp(None) => 1,
                BCall::Udp(Some(_)) => 2,
                BCall::Relay => 3,
                BCall::Compressed => 4,
                BCall::Uncompressed => 5,
                BCall::Flag(i, _) => 6 + (*i as u32 % 10),
                BCall::Flags(_) | BCall::FlagsRetain(_) => 16,
                BCall::Prefix(_) => 17,
                BCall::IntervalMs(_) => 18,
                BCall::Iname(_) => 19,
                BCall::Admin(_) => 20,
                BCall::Reqi(_) => 21,
                _ => 22,
            });
        }
        sig.u64(kinds as u64);
        sig.u64(want.flags as u64);
        sig.u64(m.proto as u64);
        sig.u64(match &sc.io {
            IoPart::None => 0,
            IoPart::SimHandshake { .. } => 1,
            IoPart::Connect { .. } => 2,
        });
        rep.signature = sig.finish();
        rep.nontrivial = sc.calls.len() >= 2;
        if m.proto == 1 && m.udp_local.is_none() {
            rep.probe("udp_without_local_address");
        }
        if matches!(sc.io, IoPart::Connect { .. }) && m.proto != 2 && sc.calls.iter().any(|c| matches!(c, BCall::Relay)) {
            rep.probe("connect_after_relay_selection");
        }
        if sc.calls.iter().any(|c| matches!(c, BCall::FlagsRetain(b) if b & !DEFINED != 0)) && sc.calls.iter().any(|c| matches!(c, BCall::Flag(..))) {
            rep.probe("unnamed_flag_bits_with_single_flag_setters");
        }
        if sc.calls.iter().filter(|c| matches!(c, BCall::Flag(..))).count() >= 2 && sc.calls.iter().any(|c| matches!(c, BCall::Flags(_))) {
            rep.probe("flag_setters_and_wholesale_mixed");
        }

        // layer 1: builder.isi()
        let built = guarded(|| {
            let b = apply(&sc.calls, dummy);
            // the builder is not consumed: asking twice must give the same answer
            let first = b.isi();
            let second = b.isi();
            (first, second)
        });
        let isi = match built {
            Err(msg) => {
                rep.violations.push(v("isi.panic", format!("building the ISI panicked: {} (calls: {})", msg, summarize(&sc.calls))));
                rep.trace_hash = h.finish();
                return rep;
            },
            Ok((i, again)) => {
                if observe(&i) != observe(&again) {
                    rep.violations.push(v("isi.not_repeatable", format!("builder.isi() called twice on the same builder gave {:?} and then {:?}", observe(&i), observe(&again))));
                    rep.trace_hash = h.finish();
                    return rep;
                }
                i
            },
        };
        let got = observe(&isi);
        h.write(format!("{:?}", got).as_bytes());
        if let Some(d) = diff(&want, &got) {
            rep.violations.push(v("isi.field_mismatch", format!("{} (calls: {})", d, summarize(&sc.calls))));
            rep.trace_hash = h.finish();
            return rep;
        }

        match &sc.io {
            IoPart::None => {},
            IoPart::SimHandshake { imp, writes, after_failed_write } => {
                rep.probe("sim_handshake");
                if *after_failed_write {
                    rep.probe("handshake_after_refused_packet");
                }
                let exp = match expected_frame(m.mode, &want) {
                    Ok(b) => b,
                    Err(_) => {
                        rep.probe("expected_frame_not_encodable");
                        rep.trace_hash = h.finish();
                        return rep;
                    },
                };
                let (res, out, shorts) = sim_handshake(*imp, m.mode, isi, writes, *after_failed_write);
                h.write(&out);
                if shorts > 0 {
                    rep.fault("short_write");
                }
                match res {
                    Err(p) => rep.violations.push(v("handshake.panic", format!("[{:?}] {}", imp, p))),
                    Ok(Err(e)) => {
                        let injected = writes.iter().any(|w| matches!(w, WriteEv::Err(_)));
                        if !injected {
                            rep.violations.push(v("handshake.error", format!("[{:?}] handshake failed on a healthy (if slow) transport: {}", imp, e)));
                        } else {
                            rep.fault("handshake_write_error");
                            // a failed handshake may have put a prefix of the ISI on the wire, nothing else
                            if !exp.starts_with(&out) {
                                rep.violations.push(v(
                                    "handshake.wire_mismatch",
                                    format!("[{:?}/{:?}] handshake failed ({}) but the peer received {} which is not a prefix of the configured ISI {}", imp, m.mode, e, hex::enc(&out), hex::enc(&exp)),
                                ));
                            }
                        }
                    },
                    Ok(Ok(())) => {
                        if writes.iter().any(|w| matches!(w, WriteEv::Err(_))) {
                            rep.fault("handshake_write_error");
                        }
                        if out != exp {
                            rep.violations.push(v(
                                "handshake.wire_mismatch",
                                format!("[{:?}/{:?}] peer received {} but the configured ISI encodes to {}", imp, m.mode, hex::enc(&out), hex::enc(&exp)),
                            ));
                        }
                    },
                }
            },
            IoPart::Connect { imp } => {
                if m.proto == 2 {
                    rep.trace_hash = h.finish();
                    return rep;
                }
                let r = connect_run(sc, &m, &want, *imp);
                for p in r.probes {
                    rep.probe(p);
                }
                h.write(r.digest.as_bytes());
                if let Some(x) = r.violation {
                    rep.violations.push(x);
                }
            },
        }
        rep.trace_hash = h.finish();
        rep
    }
}

impl Prop for C18 {
    type Sc = BuilderSc;

    fn id(&self) -> &'static str {
        "C18"
    }
    fn level(&self) -> &'static str {
        "exploration"
    }
    fn runs(&self, tier: Tier) -> u64 {
        match tier {
            Tier::Quick => 20_000,
            Tier::Thorough => 1_000_000,
        }
    }
    /// sweep: every single flag setter on/off from every one of the 2^10 starting flag states
    fn sweep_len(&self, _tier: Tier) -> u64 {
        1024 * 10 * 2
    }
    fn sweep_case(&self, _tier: Tier, idx: u64) -> BuilderSc {
        let start = (idx % 1024) as u16;
        let flag = ((idx / 1024) % 10) as u8;
        let on = idx / 10240 == 1;
        // start state through the wholesale setter: bit i of `start` -> FLAG_BITS[i]
        let mut bits = 0u16;
        for i in 0..10 {
            if start >> i & 1 == 1 {
                bits |= FLAG_BITS[i];
            }
        }
        BuilderSc {
            calls: vec![BCall::Flags(bits), BCall::Flag(flag, on)],
            io: IoPart::None,
            trace: false,
        }
    }
    fn sweep_note(&self, _tier: Tier) -> Value {
        json!({"what": "each of the 10 single-flag setters, on and off, applied to each of the 2^10 flag states", "cases": 20480, "exhaustive_over_this_subspace": true})
    }

    fn generate(&self, rng: &mut Rng, tier: Tier, _stats: &mut GenStats) -> BuilderSc {
        let n = match rng.below(10) {
            0 => 0,
            1..=6 => rng.usize(1, 8),
            _ => rng.usize(8, 40),
        };
        let mut calls: Vec<BCall> = (0..n).map(|_| gen_call(rng)).collect();
        // the corner the crash sits in: UDP without local address, with nothing or anything around
        if rng.chance(1, 12) {
            let at = rng.usize(0, calls.len());
            calls.insert(at, BCall::Udp(None));
        }
        let connect_den = match tier {
            Tier::Quick => 100,
            Tier::Thorough => 200,
        };
        let io = if rng.chance(1, connect_den) {
            // relay itself would need isrelay.lfs.net; but a builder that was a relay builder for a
            // while and ends up on a direct transport must behave like any other
            if rng.chance(1, 4) {
                let at = rng.usize(0, calls.len());
                calls.insert(at, BCall::Relay);
            }
            if model_of(&calls).proto == 2 {
                calls.push(if rng.chance(1, 2) { BCall::Tcp } else { BCall::Udp(if rng.chance(1, 2) { None } else { Some(0) }) });
            }
            // a concrete local port must be free: only None / port 0 are used with real sockets
            for c in calls.iter_mut() {
                if let BCall::Udp(Some(p)) = c {
                    if *p != 0 {
                        *c = BCall::Udp(Some(0));
                    }
                }
            }
            // relay options set on a builder that ends up on a direct transport must not leak
            if rng.chance(1, 3) {
                let at = rng.usize(0, calls.len());
                calls.insert(at, BCall::RelaySelectHost(Some(rand_name(rng, 12))));
            }
            // an interval the 16-bit wire field cannot carry makes the handshake fail: not here
            for c in calls.iter_mut() {
                if let BCall::IntervalMs(Some(ms)) = c {
                    if *ms > 65_535 {
                        *c = BCall::IntervalMs(Some(65_535));
                    }
                }
            }
            IoPart::Connect {
                imp: if rng.chance(1, 2) { Imp::Blocking } else { Imp::Tokio },
            }
        } else if rng.chance(1, 3) {
            let wc = if rng.chance(1, 4) { WriteCfg::healthy() } else { WriteCfg::swarm(rng) };
            let k = rng.usize(0, 60);
            let mut writes = gen::gen_writes(rng, k, &wc);
            if rng.chance(1, 5) {
                // a transient transport error somewhere inside the handshake write
                let at = rng.usize(0, writes.len().min(6));
                let kind = *rng.pick(&[crate::scenario::ErrKind::WouldBlock, crate::scenario::ErrKind::TimedOut, crate::scenario::ErrKind::Interrupted]);
                writes.insert(at, WriteEv::Err(kind));
            }
            IoPart::SimHandshake {
                imp: if rng.chance(1, 2) { Imp::Blocking } else { Imp::Tokio },
                writes,
                after_failed_write: rng.chance(1, 6),
            }
        } else {
            if rng.chance(1, 20) {
                calls.push(BCall::Relay);
            }
            IoPart::None
        };
        let trace = rng.chance(1, 8);
        BuilderSc { calls, io, trace }
    }

    fn execute(&self, sc: &BuilderSc) -> RunReport {
        crate::tracer::with_tracing(sc.trace, || self.execute_inner(sc))
    }

    fn trace(&self, sc: &BuilderSc) -> Value {
        let m = model_of(&sc.calls);
        let want = model_isi(&m);
        let dummy: SocketAddr = "127.0.0.1:29999".parse().unwrap();
        let got = guarded(|| apply(&sc.calls, dummy).isi()).map(|i| format!("{:?}", observe(&i)));
        json!({"model_isi": format!("{:?}", want), "builder_isi": format!("{:?}", got), "mode": format!("{:?}", m.mode), "proto": m.proto})
    }

    fn shrink(&self, sc: &BuilderSc) -> Vec<BuilderSc> {
        let mut c = Vec::new();
        let n = sc.calls.len();
        if n > 1 {
            for (a, b) in [(0, n / 2), (n / 2, n)] {
                let mut s = sc.clone();
                let _ = s.calls.drain(a..b);
                c.push(s);
            }
        }
        for i in 0..n {
            let mut s = sc.clone();
            let _ = s.calls.remove(i);
            c.push(s);
        }
        if let IoPart::SimHandshake { imp, writes, after_failed_write } = &sc.io {
            if !writes.is_empty() {
                c.push(BuilderSc {
                    calls: sc.calls.clone(),
                    io: IoPart::SimHandshake { imp: *imp, writes: vec![], after_failed_write: *after_failed_write },
                    trace: sc.trace,
                });
                for i in 0..writes.len().min(60) {
                    let mut w = writes.clone();
                    let _ = w.remove(i);
                    c.push(BuilderSc {
                        calls: sc.calls.clone(),
                        io: IoPart::SimHandshake { imp: *imp, writes: w, after_failed_write: *after_failed_write },
                        trace: sc.trace,
                    });
                }
            }
        }
        for i in 0..n {
            match &sc.calls[i] {
                BCall::Iname(Some(s)) if !s.is_empty() => {
                    let mut x = sc.clone();
                    x.calls[i] = BCall::Iname(Some("a".into()));
                    c.push(x);
                },
                BCall::Admin(Some(s)) if !s.is_empty() => {
                    let mut x = sc.clone();
                    x.calls[i] = BCall::Admin(Some("a".into()));
                    c.push(x);
                },
                _ => {},
            }
        }
        c
    }

    fn repro_variants(&self, sc: &BuilderSc) -> Vec<BuilderSc> {
        // tracing keeps a process-wide callsite cache: a case found with `trace: false` while
        // another worker had a subscriber reproduces on its own only with `trace: true`
        if sc.trace {
            vec![]
        } else {
            let mut v = sc.clone();
            v.trace = true;
            vec![v]
        }
    }

    fn rule(&self) -> String {
        "Each case is a builder call sequence (0..40 calls: the ten single-flag setters on/off, wholesale flag replacement incl. undefined bits, prefix / interval / name / password / request id set, re-set and cleared, tcp / udp with, without and with port-0 local address, relay, compressed / uncompressed, unrelated options) applied to the real Builder and to a last-writer-wins model; builder.isi() is compared field by field. A third of the cases then run Framed::handshake(isi) over the simulated link with short writes / Pending and compare the bytes the peer received with the encoding of the model ISI in the configured mode; about 1% run the real connect_blocking / connect_async against a loopback TCP listener / UDP socket and require that ISI as the first and only frame. Sweep: every single-flag setter from every flag state. Non-trivial = at least two builder calls; distinct = (set of setter kinds used, final flags, transport, I/O layer).".into()
    }
    fn assumptions(&self) -> Vec<String> {
        vec![
            "documented defaults: flags 0, prefix NUL, interval 0, admin empty, iname \"insim.rs\", reqi 0, version 9, udpport 0 unless UDP with a local address".into(),
            "UDP without a local address: udpport 0 from builder.isi(), and connect_* must send that same ISI".into(),
            "expected handshake bytes are laid out by hand from the InSim specification of IS_ISI, independently of the library's encoder; program names are <= 15 ASCII characters, passwords <= 15 bytes of UTF-8 sent verbatim (as the shipped field attribute says), intervals <= 65535 ms, so that codepage and duration conversion (C10/C11/C15, not claimed) cannot influence the verdict; if model and library encoder disagree on pure-ASCII content the case is not judged".into(),
            "relay connect paths (hard-wired to isrelay.lfs.net:47474) are unreachable offline and not exercised".into(),
            "UDP 'only frame': no second datagram within 30 ms of the first (can miss, cannot false-alarm)".into(),
        ]
    }
    fn components(&self) -> Value {
        json!({
            "real": ["insim::Builder (all setters, isi())", "Framed::handshake (blocking and tokio)", "Builder::connect_blocking / connect_async for TCP and UDP", "blocking and tokio UdpStream adaptors", "kernel loopback TCP/UDP (connect part only)"],
            "stub": ["last-writer-wins builder model", "SimStream write half (handshake part)", "loopback listener / peer socket driven in lock-step"],
        })
    }
    fn required(&self, _tier: Tier) -> Vec<&'static str> {
        vec![
            "udp_without_local_address",
            "flag_setters_and_wholesale_mixed",
            "sim_handshake",
            "short_write",
            "handshake_write_error",
            "handshake_after_refused_packet",
            "connect_after_relay_selection",
            "unnamed_flag_bits_with_single_flag_setters",
            "connect_tcp_blocking",
            "connect_tcp_tokio",
            "connect_udp_blocking",
            "connect_udp_tokio",
            "connect_udp_no_local",
        ]
    }
}

fn summarize(calls: &[BCall]) -> String {
    let s = format!("{:?}", calls);
    if s.chars().count() > 300 {
        format!("{}…", s.chars().take(300).collect::<String>())
    } else {
        s
    }
}

fn sim_handshake(imp: Imp, mode: SizeMode, isi: Isi, writes: &[WriteEv], after_failed_write: bool) -> (Result<Result<(), String>, String>, Vec<u8>, u64) {
    // a packet the encoder refuses (HCP with h_mass 201 in its last entry), fixed so that the scenario stays plain data
    let refused: Option<Packet> = if after_failed_write {
        let mut f = vec![0u8; 68];
        f[0] = mode.size_byte(68);
        f[1] = 56;
        f[64] = 201;
        crate::model::ref_decode_packet(mode, &f).1
    } else {
        None
    };
    let link = Arc::new(Mutex::new(LinkState::new(imp == Imp::Tokio, vec![], &[], writes)));
    let r = match imp {
        Imp::Blocking => {
            let mut f = insim::net::blocking_impl::Framed::new(Box::new(SimStream(link.clone())), Codec::new(mode.to_mode()));
            guarded(move || {
                if let Some(p) = refused {
                    let _ = f.write(p);
                }
                f.handshake(isi).map_err(|e| format!("{:?}", e))
            })
        },
        Imp::Tokio => {
            let l2 = link.clone();
            guarded(move || {
                let rt = tokio::runtime::Builder::new_current_thread().enable_time().start_paused(true).build().unwrap();
                rt.block_on(async move {
                    let mut f = insim::net::tokio_impl::Framed::new(Box::new(SimStream(l2)), Codec::new(mode.to_mode()));
                    if let Some(p) = refused {
                        let _ = f.write(p).await;
                    }
                    // the link self-wakes on Pending, so awaiting directly is deterministic here
                    f.handshake(isi, Duration::from_secs(30)).await.map_err(|e| format!("{:?}", e))
                })
            })
        },
    };
    let st = link.lock().unwrap_or_else(|e| e.into_inner());
    let shorts = st.trace.iter().filter(|e| matches!(e, crate::link::Ev::WData { off, took } if took < off)).count() as u64;
    (r, st.out.clone(), shorts)
}

struct ConnectResult {
    violation: Option<crate::oracle::Violation>,
    probes: Vec<&'static str>,
    digest: String,
}

fn connect_run(sc: &BuilderSc, m: &ModelB, want: &ModelIsi, imp: Imp) -> ConnectResult {
    let mut probes = Vec::new();
    let tag = format!("[connect/{:?}/{}]", imp, if m.proto == 0 { "tcp" } else { "udp" });
    let fail = |clause: &str, d: String| ConnectResult {
        violation: Some(v(clause, d)),
        probes: vec![],
        digest: String::new(),
    };
    if m.proto == 0 {
        let listener = match TcpListener::bind("127.0.0.1:0") {
            Ok(l) => l,
            Err(_) => return ConnectResult { violation: None, probes: vec!["socket_unavailable"], digest: String::new() },
        };
        let addr = listener.local_addr().unwrap();
        let calls = sc.calls.clone();
        let want_len = expected_frame(m.mode, want).map(|b| b.len()).unwrap_or(0);
        let l2 = listener.try_clone();
        // what the host sees WHILE the connection is still held by the application (the handshake
        // is "sent" when connect returns, not when the connection is dropped), for the first of
        // the two connections
        let res = guarded(move || -> Result<Option<(Vec<u8>, Vec<u8>)>, String> {
            let b = apply(&calls, addr);
            let mut early: Option<Vec<u8>> = None;
            let mut first_stream: Option<std::net::TcpStream> = None;
            let mut held_open = |early: &mut Option<Vec<u8>>| {
                if early.is_some() || want_len == 0 {
                    return;
                }
                if let Ok(l) = &l2 {
                    if let Ok((mut s, _)) = l.accept() {
                        let _ = s.set_read_timeout(Some(Duration::from_millis(1500)));
                        let mut got = vec![0u8; want_len];
                        let mut n = 0;
                        while n < want_len {
                            match s.read(&mut got[n..]) {
                                Ok(0) | Err(_) => break,
                                Ok(k) => n += k,
                            }
                        }
                        got.truncate(n);
                        *early = Some(got);
                        first_stream = Some(s);
                    }
                }
            };
            // "The Builder is not consumed and may be reused": connect twice from the same builder
            for nth in 0..2 {
                match imp {
                    Imp::Blocking => {
                        let c = b.connect_blocking().map_err(|e| format!("{:?}", e))?;
                        if nth == 0 {
                            held_open(&mut early);
                        }
                        drop(c);
                    },
                    Imp::Tokio => {
                        let rt = tokio::runtime::Builder::new_current_thread().enable_all().build().unwrap();
                        rt.block_on(async {
                            let c = b.connect_async().await.map_err(|e| format!("{:?}", e))?;
                            if nth == 0 {
                                held_open(&mut early);
                            }
                            drop(c);
                            Ok::<(), String>(())
                        })?;
                    },
                }
            }
            // whatever else the first connection sent before it was closed
            let mut rest = Vec::new();
            if let Some(mut s) = first_stream {
                let _ = s.set_read_timeout(Some(Duration::from_secs(10)));
                let _ = s.read_to_end(&mut rest);
            }
            Ok(early.map(|e| (e, rest)))
        });
        let early = match res {
            Err(p) => return fail("connect.panic", format!("{} {} (calls: {})", tag, p, summarize(&sc.calls))),
            Ok(Err(e)) => return fail("connect.error", format!("{} connecting to a listening loopback socket failed: {}", tag, e)),
            Ok(Ok(e)) => e,
        };
        if let (Some((e, rest)), Ok(exp)) = (&early, expected_frame(m.mode, want)) {
            if *e == exp && !rest.is_empty() {
                return fail("connect.wire_mismatch", format!("{} after the ISI the first connection sent {} more before it was closed; the ISI is the first and only frame", tag, hex::enc(rest)));
            }
            if *e != exp {
                return fail(
                    "connect.isi_not_sent_while_open",
                    format!("{} with the connection still held open the host had received {} ({} bytes) after 1.5 s; the configured ISI ({:?}) encodes to {} (calls: {})", tag, hex::enc(e), e.len(), m.mode, hex::enc(&exp), summarize(&sc.calls)),
                );
            }
            probes.push("isi_seen_while_connection_open");
        }
        probes.push(if imp == Imp::Blocking { "connect_tcp_blocking" } else { "connect_tcp_tokio" });
        let exp = match expected_frame(m.mode, want) {
            Ok(b) => b,
            Err(_) => return ConnectResult { violation: None, probes, digest: String::new() },
        };
        let mut got = Vec::new();
        for nth in (if early.is_some() { 1 } else { 0 })..2 {
            let (mut s, _) = match listener.accept() {
                Ok(x) => x,
                Err(e) => return fail("connect.error", format!("{} accept failed: {}", tag, e)),
            };
            let _ = s.set_read_timeout(Some(Duration::from_secs(10)));
            got.clear();
            let _ = s.read_to_end(&mut got);
            if got != exp && nth == 1 {
                return ConnectResult {
                    violation: Some(v("connect.wire_mismatch", format!("{} the SECOND connection made from the same builder sent {} until EOF, the configured ISI ({:?}) encodes to {}", tag, hex::enc(&got), m.mode, hex::enc(&exp)))),
                    probes,
                    digest: String::new(),
                };
            }
            if got != exp {
                break;
            }
        }
        if got != exp {
            return ConnectResult {
                violation: Some(v("connect.wire_mismatch", format!("{} listener received {} until EOF, the configured ISI ({:?}) encodes to {}", tag, hex::enc(&got), m.mode, hex::enc(&exp)))),
                probes,
                digest: String::new(),
            };
        }
        return ConnectResult { violation: None, probes, digest: hex::enc(&got) };
    }
    // UDP
    let peer = match UdpSocket::bind("127.0.0.1:0") {
        Ok(s) => s,
        Err(_) => return ConnectResult { violation: None, probes: vec!["socket_unavailable"], digest: String::new() },
    };
    let addr = peer.local_addr().unwrap();
    let calls = sc.calls.clone();
    let res = guarded(move || -> Result<Option<u16>, String> {
        let b = apply(&calls, addr);
        match imp {
            Imp::Blocking => {
                let c = b.connect_blocking().map_err(|e| format!("{:?}", e))?;
                drop(c);
            },
            Imp::Tokio => {
                let rt = tokio::runtime::Builder::new_current_thread().enable_all().build().unwrap();
                rt.block_on(async {
                    let c = b.connect_async().await.map_err(|e| format!("{:?}", e))?;
                    drop(c);
                    Ok::<(), String>(())
                })?;
            },
        }
        Ok(None)
    });
    match res {
        Err(p) => return fail("connect.panic", format!("{} {} (calls: {})", tag, p, summarize(&sc.calls))),
        Ok(Err(e)) => return fail("connect.error", format!("{} UDP connect + handshake to a bound loopback socket failed: {}", tag, e)),
        Ok(Ok(_)) => {},
    }
    probes.push(if imp == Imp::Blocking { "connect_udp_blocking" } else { "connect_udp_tokio" });
    if m.udp_local.is_none() {
        probes.push("connect_udp_no_local");
    }
    let _ = peer.set_read_timeout(Some(Duration::from_secs(10)));
    let mut buf = [0u8; 2048];
    let (n, from) = match peer.recv_from(&mut buf) {
        Ok(x) => x,
        Err(e) => return fail("connect.nothing_sent", format!("{} no datagram arrived: {}", tag, e)),
    };
    let got = buf[..n].to_vec();
    let _ = from;
    let candidates = vec![want.clone()];
    let mut ok = false;
    let mut exp_hex = String::new();
    for c in &candidates {
        if let Ok(b) = expected_frame(m.mode, c) {
            exp_hex = hex::enc(&b);
            if b == got {
                ok = true;
            }
        } else {
            ok = true; // not encodable by the reference: outside this property
        }
    }
    if !ok {
        return ConnectResult {
            violation: Some(v("connect.wire_mismatch", format!("{} first datagram {} but the configured ISI ({:?}) encodes to {}", tag, hex::enc(&got), m.mode, exp_hex))),
            probes,
            digest: String::new(),
        };
    }
    let _ = peer.set_read_timeout(Some(Duration::from_millis(30)));
    if let Ok((n2, _)) = peer.recv_from(&mut buf) {
        return ConnectResult {
            violation: Some(v("connect.extra_frame", format!("{} a second datagram of {} bytes followed the ISI: {}", tag, n2, hex::enc(&buf[..n2])))),
            probes,
            digest: String::new(),
        };
    }
    // digest must not contain the ephemeral port
    ConnectResult { violation: None, probes, digest: format!("udp-ok-{}", got.len()) }
}
