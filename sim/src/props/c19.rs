//! C19 — cancelling a pending async read loses nothing.
//!
//! Differential oracle: the same inbound history and link script is run twice through the
//! real tokio `Framed` — once with the application dropping read futures at scripted poll
//! counts, once uninterrupted — and the completed reads must return the same sequence.

use serde_json::{json, Value};

use crate::{
    driver::{Prop, RunReport, Tier},
    exec,
    gen::{self, FrameMix, GenStats, LinkCfg, WriteCfg},
    oracle::{analyze, trace_hash, v},
    rng::{Fnv, Rng},
    scenario::{AppOp, Imp, StreamScenario},
    streamprop::{shrink_stream, stream_components, trace_json},
};

pub struct C19;

fn baseline_of(sc: &StreamScenario) -> StreamScenario {
    let mut b = sc.clone();
    b.writes.clear();
    let n = crate::model::split_frames(sc.mode, &sc.inbound).len();
    b.ops = vec![AppOp::Drain { max: (n + 3) as u32 }];
    b
}

impl Prop for C19 {
    type Sc = StreamScenario;

    fn id(&self) -> &'static str {
        "C19"
    }
    fn level(&self) -> &'static str {
        "exploration"
    }
    fn runs(&self, tier: Tier) -> u64 {
        match tier {
            Tier::Quick => 20_000,
            Tier::Thorough => 2_000_000,
        }
    }

    fn generate(&self, rng: &mut Rng, _tier: Tier, stats: &mut GenStats) -> StreamScenario {
        let mode = gen::pick_mode(rng);
        let mut mix = FrameMix::swarm(rng);
        mix.keepalive = if rng.chance(1, 6) { 0 } else { rng.range(10, 80) };
        // version packets too: a rejected VER is a result like any other and must not get lost
        let verify = rng.chance(1, 3);
        mix.ver = if verify { rng.range(5, 40) } else { 0 };
        mix.ver_mostly_9 = rng.chance(1, 2);
        let target = match rng.below(12) {
            0 => rng.usize(3000, 14_000),
            _ => rng.usize(4, 500),
        };
        let frames = gen::gen_frames_to_target(rng, mode, &mix, target, 1500, stats);
        let (inbound, ends) = gen::concat(&frames);
        let mut lc = LinkCfg::swarm(rng);
        lc.err_pm = 0;
        lc.long_stall_pm = 0;
        lc.early_eof_pm = 0;
        lc.pending_pm = rng.range(100, 700);
        lc.stall_pm = if rng.chance(1, 2) { rng.range(10, 200) } else { 0 };
        let reads = gen::gen_reads(rng, inbound.len(), &ends, &lc);
        let wc = WriteCfg {
            short_pm: if rng.chance(3, 4) { rng.range(100, 900) } else { 0 },
            pending_pm: if rng.chance(7, 8) { rng.range(200, 900) } else { 0 },
            stall_pm: if rng.chance(1, 4) { rng.range(20, 200) } else { 0 },
        };
        let n_wev = rng.usize(4, 120);
        let writes = gen::gen_writes(rng, n_wev, &wc);

        let buffered = rng.chance(1, 3);
        let flushes = if rng.chance(1, 2) {
            let k = rng.usize(1, 80);
            let pm = rng.range(100, 800);
            gen::gen_flushes(rng, k, pm)
        } else {
            vec![]
        };
        let fault_free = rng.chance(1, 10); // no cancellation at all: baseline of the workload
        // long sessions get proportionally long application scripts, so that cancellations also
        // land deep into the session (after the receive buffer has wrapped)
        let cap_ops = if frames.len() > 60 && rng.chance(3, 4) {
            frames.len() * 2
        } else if rng.chance(1, 8) {
            200
        } else {
            30
        };
        let n_ops = rng.usize(1, cap_ops);
        let mut ops = Vec::new();
        let max_polls = *rng.pick(&[1u32, 2, 3, 4, 8, 16]);
        for _ in 0..n_ops {
            match rng.below(10) {
                0..=5 => {
                    if fault_free {
                        ops.push(AppOp::Read)
                    } else {
                        ops.push(AppOp::ReadCancel {
                            polls: rng.below(max_polls as u64 + 1) as u32,
                        })
                    }
                },
                6 | 7 => ops.push(AppOp::Read),
                8 => ops.push(AppOp::Write(gen::gen_out_frame(rng, mode, stats))),
                _ => ops.push(AppOp::Advance(rng.range(1, 5_000))),
            }
        }
        ops.push(AppOp::Drain {
            max: (frames.len() + 3) as u32,
        });
        StreamScenario {
            imp: Imp::Tokio,
            mode,
            verify_version: verify,
            explicit_gate: true,
            flushes,
            buffered,
            gate_calls: vec![],
            trace: rng.chance(1, 8),
            via_builder: None,
            inbound,
            reads,
            writes,
            ops,
        }
    }

    fn execute(&self, sc: &StreamScenario) -> RunReport {
        let mut rep = RunReport::default();
        let mut h = Fnv::default();
        let out1 = exec::run(sc);
        let an1 = analyze(sc, &out1);
        let base = baseline_of(sc);
        let out0 = exec::run(&base);
        let an0 = analyze(&base, &out0);
        h.u64(trace_hash(&out1));
        h.u64(trace_hash(&out0));
        rep.trace_hash = h.finish();
        rep.sim_ms = out1.sim_ms + out0.sim_ms;
        rep.signature = an1.facts.signature;
        rep.merge_maps(&an1.facts.probes, &an1.facts.faults);
        let cancels = an1.facts.faults.get("read_cancelled").copied().unwrap_or(0);
        rep.nontrivial = cancels > 0;
        if !an0.violations.is_empty() {
            rep.probe("baseline_deviates_from_model");
        }
        let tag = format!("[Tokio/{:?}]", sc.mode);

        // 1. nothing lost, duplicated or reordered
        let f1 = &an1.facts.frame_results;
        let f0 = &an0.facts.frame_results;
        let base_ok = an0.facts.reached_disconnected && !an0.facts.panicked && !an0.facts.budget_exhausted;
        if an1.facts.panicked {
            // a panic only counts here if the uninterrupted session does not panic
            if !an0.facts.panicked {
                let d = an1.violations.iter().find(|x| x.clause == "panic").map(|x| x.detail.clone()).unwrap_or_default();
                rep.violations.push(v("cancel.panic", format!("{} {} (uninterrupted session does not panic)", tag, d)));
            }
        } else if base_ok && cancels > 0 {
            if an1.facts.budget_exhausted || !an1.facts.reached_disconnected {
                rep.violations.push(v(
                    "cancel.stuck",
                    format!("{} after {} cancelled reads the session never reaches Disconnected ({} results), the uninterrupted one does after {} results", tag, cancels, f1.len(), f0.len()),
                ));
            } else if f1 != f0 {
                let i = f1.iter().zip(f0.iter()).position(|(a, b)| a != b).unwrap_or(f1.len().min(f0.len()));
                let lost = f1.len() < f0.len();
                rep.violations.push(v(
                    if lost { "cancel.lost_packet" } else if f1.len() > f0.len() { "cancel.duplicated_packet" } else { "cancel.different_packet" },
                    format!(
                        "{} completed reads returned {} frame results, the uninterrupted session {}; first difference at #{}: {:?} vs {:?}",
                        tag,
                        f1.len(),
                        f0.len(),
                        i,
                        f1.get(i).map(|s| s.chars().take(120).collect::<String>()),
                        f0.get(i).map(|s| s.chars().take(120).collect::<String>())
                    ),
                ));
            }
        }

        // 2. no partial frame on the outgoing side; replies neither lost nor duplicated
        let cancel_in_write = an1.facts.probes.get("cancel_in_pong_write_after_partial").copied().unwrap_or(0)
            + an1.facts.probes.get("cancel_in_pong_write_before_first_byte").copied().unwrap_or(0)
            + an1.facts.probes.get("cancel_in_reply_flush").copied().unwrap_or(0);
        let base_unflushed = an0.violations.iter().any(|x| x.clause == "wire.unflushed");
        if cancel_in_write > 0 && base_ok && !an1.facts.panicked {
            for x in &an1.violations {
                if x.clause == "wire.unflushed" && base_unflushed {
                    // the uninterrupted session does not flush either: not cancellation's doing
                    continue;
                }
                if matches!(x.clause.as_str(), "wire.torn_pong" | "wire.torn_pong_at_end" | "wire.non_pong_during_read" | "wire.partial_pong_at_return" | "wire.unflushed") {
                    rep.violations.push(v("cancel.torn_outgoing", format!("{} {} ({})", tag, x.detail, x.clause)));
                    break;
                }
            }
        }
        if cancels > 0 && base_ok && an1.facts.reached_disconnected && !an1.facts.panicked && rep.violations.is_empty() && !an1.facts.wire_broken {
            let p0 = an0.facts.pong_bytes;
            let p1 = an1.facts.pong_bytes;
            if p0 % 4 == 0 && p1 != p0 {
                rep.violations.push(v(
                    "cancel.reply_count",
                    format!("{} {} bytes of keep-alive replies on the wire, the uninterrupted session wrote {}", tag, p1, p0),
                ));
            }
        }
        rep
    }

    fn trace(&self, sc: &StreamScenario) -> Value {
        json!({"with_cancellation": trace_json(sc), "uninterrupted": trace_json(&baseline_of(sc))})
    }
    fn shrink(&self, sc: &StreamScenario) -> Vec<StreamScenario> {
        shrink_stream(sc)
    }
    fn preludes(&self, sc: &StreamScenario) -> Vec<StreamScenario> {
        crate::streamprop::stream_preludes(sc)
    }
    fn repro_variants(&self, sc: &StreamScenario) -> Vec<StreamScenario> {
        // tracing keeps a process-wide callsite cache: a case found with `trace: false` while
        // another worker had a subscriber reproduces on its own only with `trace: true`
        if sc.trace {
            vec![]
        } else {
            let mut v = sc.clone();
            v.trace = true;
            vec![v]
        }
    }

    fn rule(&self) -> String {
        "Each case is one tokio session: an inbound history (keep-alive rich), a link script with Pending/Ready on both halves, short stalls and short writes, and an application script that starts read(), polls it a scripted number of times (0..16) and drops it, interleaved with completed reads, writes and clock advances (the strobe example's select! pattern), then drains to Disconnected with no further cancellation. Oracle (differential, same real code): frame results of completed reads == those of the same session read without interruption; outgoing bytes form whole frames; as many keep-alive replies as the uninterrupted session. Non-trivial = at least one read future was actually dropped while pending; distinct by trace signature (which includes where each cancellation landed).".into()
    }
    fn assumptions(&self) -> Vec<String> {
        vec![
            "application writes always run to completion (the property is about cancelled reads)".into(),
            "no transport errors and no stalls >= 90 s in this workload, so every difference is attributable to cancellation".into(),
            "an outgoing-side violation is attributed to cancellation only if some cancellation landed while a reply write was in flight".into(),
        ]
    }
    fn components(&self) -> Value {
        stream_components()
    }
    fn required(&self, _tier: Tier) -> Vec<&'static str> {
        vec![
            "read_cancelled",
            "cancel_before_first_poll",
            "cancel_in_read",
            "cancel_in_read_with_partial_frame_buffered",
            "cancel_in_pong_write_before_first_byte",
            "cancel_in_pong_write_after_partial",
            "cancel_and_keepalive_same_run",
            "write_and_keepalive_same_run",
        ]
    }
}
