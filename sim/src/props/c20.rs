//! C20 — the WebSocket relay transport carries the same byte stream as TCP.
//!
//! Loopback world: the real `WebsocketStream` adaptor inside the real tokio `Framed`, attached
//! to a scripted tokio-tungstenite *server* endpoint living in the same current-thread runtime
//! (no HTTP upgrade: both ends are built with `from_raw_socket` over a loopback TCP pair).

use std::time::Duration;

use futures_util::{SinkExt, StreamExt};
use insim::net::Codec;
use serde::{Deserialize, Serialize};
use serde_json::{json, Value};
use tokio::net::{TcpListener, TcpStream};
use tokio_tungstenite::{
    tungstenite::protocol::{Message, Role},
    MaybeTlsStream, WebSocketStream,
};

use crate::{
    driver::{Prop, RunReport, Tier},
    gen::{self, FrameMix, GenStats},
    link::AppRes,
    model::{expect_for, ref_decode_packet, ref_encode, split_frames, Expect, FrameKind},
    oracle::v,
    rng::{Fnv, Rng},
    scenario::{hex, SizeMode},
};

pub struct C20;

#[derive(Serialize, Deserialize, Clone, Debug, PartialEq, Eq)]
pub enum WsMsg {
    Binary(#[serde(with = "hex")] Vec<u8>),
    Text(String),
    Ping(#[serde(with = "hex")] Vec<u8>),
    Pong(#[serde(with = "hex")] Vec<u8>),
}

#[derive(Serialize, Deserialize, Clone, Debug, PartialEq, Eq)]
pub enum WsStep {
    /// the server sends these messages; then the client reads every frame they complete
    Send(Vec<WsMsg>),
    /// the application writes this packet (canonical frame)
    Write(#[serde(with = "hex")] Vec<u8>),
    /// the application starts a read while nothing is in flight and drops it after its first
    /// poll (select! with a branch that is ready at once)
    CancelledRead,
    /// the application writes all these packets back to back while the server only starts
    /// reading 15 ms later: with the small socket buffers of such a session the transport
    /// exerts back-pressure (Pending) in the middle of the burst
    WriteBurst(#[serde(with = "crate::scenario::hexvec")] Vec<Vec<u8>>),
    /// the relay has stopped reading; the application keeps writing (`count` text messages to
    /// connections, IS_MTC, each with its own serial number in the text and `pad` filler
    /// characters) but gives each write only two polls before dropping it (a select! against a
    /// tick): far more than the socket buffers and the WebSocket layer's own 128 KiB write
    /// buffer hold. Then the relay reads again and the application writes `last`, awaited in full.
    AbandonedBurst {
        count: u32,
        pad: u32,
        #[serde(with = "hex")]
        last: Vec<u8>,
        /// while the relay is still not reading, it sends a keep-alive; the application reads
        /// it (its reply has to queue behind everything else) before it writes `last`
        #[serde(default)]
        ka: bool,
    },
}

#[derive(Serialize, Deserialize, Clone, Copy, Debug, PartialEq, Eq)]
pub enum WsEnd {
    /// close handshake, then the server drops the TCP stream
    Close,
    /// the server drops the TCP stream without a close frame
    Drop,
    /// same, with a partial frame's bytes still undelivered to the application
    None,
    /// the server sends one more large message (many frames), the application reads only its
    /// first frame and drops the connection: what was received but not delivered dies with it
    Abandon,
}

#[derive(Serialize, Deserialize, Clone, Debug, PartialEq, Eq)]
pub struct WsSc {
    pub mode: SizeMode,
    pub steps: Vec<WsStep>,
    pub end: WsEnd,
    /// the frames of the last Send step are read only after the server has ended the session
    /// (close frame and/or FIN already queued behind the data)
    #[serde(default)]
    pub late_read: bool,
    /// status code of the server's close frame (0 = close frame without a status)
    #[serde(default)]
    pub close_code: u16,
    /// run with a tracing subscriber that enables every span and event
    #[serde(default)]
    pub trace: bool,
    /// the adaptor is used as what it is published as — an `AsyncRead` — by a hand-written
    /// framing reader (`read_exact` of the size byte, then of the rest of the frame) instead of
    /// the library's connection; only the Send steps of the session are performed
    #[serde(default)]
    pub direct: bool,
}

/// text the relay may send (status lines, JSON, error pages): short or long, ASCII or not
fn gen_text(rng: &mut Rng) -> String {
    if rng.chance(1, 2) {
        return "relay says hi".into();
    }
    let mut s = String::new();
    for _ in 0..rng.below(4) {
        s.push(*rng.pick(&['a', '{', ' ', '1']));
    }
    let target = *rng.pick(&[1usize, 10, 63, 64, 65, 100, 127, 128, 129, 300, 1100, 7000]);
    let c = *rng.pick(&['x', 'é', 'é', '€', '😀', 'я']);
    while s.len() < target {
        s.push(if rng.chance(1, 8) { ' ' } else { c });
    }
    s
}

/// the k-th packet of an abandoned burst
fn burst_packet(k: usize, pad: u32) -> insim::Packet {
    insim::Packet::Mtc(insim::insim::Mtc {
        reqi: insim::identifiers::RequestId((k % 255 + 1) as u8),
        text: format!("{:08}{}", k, "x".repeat(pad as usize)),
        ..Default::default()
    })
}

const GUARD: Duration = Duration::from_secs(3);

#[derive(Debug, Clone, Serialize)]
enum WEv {
    ServerSent { kind: &'static str, len: usize },
    Read { res: AppRes, slow: bool },
    Wrote { res: AppRes },
    ServerGot { msg: String },
    ServerGotNothing,
    End { res: AppRes },
    Burst { wrote: Vec<AppRes>, got: Vec<String> },
    /// outcome per write (0 dropped while pending, 1 completed, 2 failed), what the server saw
    Abandoned { outcome: Vec<u8>, failed: Option<AppRes>, ka_read: Option<AppRes>, last: AppRes, got: Vec<String> },
    Cancelled { completed: Option<AppRes> },
    /// direct mode: one frame read through `read_exact` (hex), or why not
    DirectRead { frame: Result<String, String> },
}

struct WsRun {
    events: Vec<WEv>,
    harness_error: Option<String>,
}

type Srv = WebSocketStream<TcpStream>;

/// next data message seen by the server (pongs answering our pings are skipped)
async fn server_next(server: &mut Srv) -> Option<String> {
    loop {
        match tokio::time::timeout(GUARD, server.next()).await {
            Err(_) => return None,
            Ok(None) => return Some("<stream ended>".into()),
            Ok(Some(Err(e))) => return Some(format!("<error {}>", e)),
            Ok(Some(Ok(Message::Pong(_)))) => continue,
            Ok(Some(Ok(Message::Binary(b)))) => return Some(format!("binary:{}", hex::enc(&b))),
            Ok(Some(Ok(Message::Text(t)))) => return Some(format!("text:{}", t)),
            Ok(Some(Ok(Message::Ping(p)))) => return Some(format!("ping:{}", hex::enc(&p))),
            Ok(Some(Ok(Message::Close(_)))) => return Some("close".into()),
            Ok(Some(Ok(Message::Frame(_)))) => return Some("frame".into()),
        }
    }
}

fn close_frame(code: u16) -> Option<tokio_tungstenite::tungstenite::protocol::CloseFrame<'static>> {
    if code == 0 {
        None
    } else {
        Some(tokio_tungstenite::tungstenite::protocol::CloseFrame {
            code: tokio_tungstenite::tungstenite::protocol::frame::coding::CloseCode::from(code),
            reason: "relay going away".into(),
        })
    }
}

/// a read that only completes this long after everything it needs was sent did not make
/// progress on its own: something else (our guard timer) had to wake it
const SLOW_MS: u128 = 2_000;

fn to_res(r: insim::Result<insim::Packet>) -> AppRes {
    match r {
        Ok(p) => AppRes::Pkt(format!("{:?}", p)),
        Err(e) => AppRes::from_err(&e),
    }
}

fn run_ws(sc: &WsSc) -> WsRun {
    crate::tracer::with_tracing(sc.trace, || run_ws_inner(sc))
}

fn run_ws_inner(sc: &WsSc) -> WsRun {
    let rt = tokio::runtime::Builder::new_current_thread().enable_all().build().unwrap();
    let mut events = Vec::new();
    crate::model::enter_guard();
    let r: Result<Result<(), String>, Box<dyn std::any::Any + Send>> = std::panic::catch_unwind(std::panic::AssertUnwindSafe(|| rt.block_on(async {
        let small = sc.steps.iter().any(|s| matches!(s, WsStep::WriteBurst(_) | WsStep::AbandonedBurst { .. }));
        let lsock = tokio::net::TcpSocket::new_v4().map_err(|e| e.to_string())?;
        if small {
            // client -> server direction only: the server -> client direction keeps default
            // buffers so that lock-step sends never block
            let _ = lsock.set_recv_buffer_size(2048);
        }
        lsock.bind("127.0.0.1:0".parse().unwrap()).map_err(|e| e.to_string())?;
        let listener: TcpListener = lsock.listen(8).map_err(|e| e.to_string())?;
        let addr = listener.local_addr().map_err(|e| e.to_string())?;
        let csock = tokio::net::TcpSocket::new_v4().map_err(|e| e.to_string())?;
        if small {
            let _ = csock.set_send_buffer_size(2048);
        }
        let client_tcp: TcpStream = csock.connect(addr).await.map_err(|e| e.to_string())?;
        let (server_tcp, _) = listener.accept().await.map_err(|e| e.to_string())?;
        let _ = client_tcp.set_nodelay(true);
        let _ = server_tcp.set_nodelay(true);
        let client_ws = WebSocketStream::from_raw_socket(MaybeTlsStream::Plain(client_tcp), Role::Client, None).await;
        let mut server: Srv = WebSocketStream::from_raw_socket(server_tcp, Role::Server, None).await;
        if sc.direct {
            use tokio::io::AsyncReadExt;
            let mut ws = insim::net::tokio_impl::WebsocketStream::from(client_ws);
            let mut stream: Vec<u8> = Vec::new();
            let mut frames_read = 0usize;
            for st in &sc.steps {
                let WsStep::Send(msgs) = st else { continue };
                for m in msgs {
                    let msg = match m {
                        WsMsg::Binary(b) => {
                            stream.extend_from_slice(b);
                            Message::binary(b.clone())
                        },
                        WsMsg::Text(t) => Message::Text(t.clone()),
                        WsMsg::Ping(p) => Message::Ping(p.clone()),
                        WsMsg::Pong(p) => Message::Pong(p.clone()),
                    };
                    if tokio::time::timeout(GUARD, server.send(msg)).await.is_err() {
                        return Err("server send".into());
                    }
                }
                let frames = split_frames(sc.mode, &stream);
                let complete = frames.iter().filter(|f| f.kind == FrameKind::Complete).count();
                while frames_read < complete {
                    let want = frames[frames_read].len;
                    let r = tokio::time::timeout(GUARD, async {
                        let mut head = [0u8; 1];
                        ws.read_exact(&mut head).await.map_err(|e| format!("size byte: {}", e))?;
                        let n = sc.mode.announced(head[0]);
                        let mut f = vec![0u8; n.max(1)];
                        f[0] = head[0];
                        if n > 1 {
                            ws.read_exact(&mut f[1..]).await.map_err(|e| format!("frame body: {}", e))?;
                        }
                        Ok::<_, String>(f)
                    })
                    .await;
                    let frame = match r {
                        Err(_) => Err(format!("no frame within the 3 s guard although all {} bytes of it had been sent", want)),
                        Ok(Ok(f)) => Ok(hex::enc(&f)),
                        Ok(Err(e)) => Err(e),
                    };
                    let bad = frame.is_err();
                    events.push(WEv::DirectRead { frame });
                    frames_read += 1;
                    if bad {
                        return Ok(());
                    }
                }
            }
            return Ok(());
        }
        let mut framed = insim::net::tokio_impl::Framed::new(
            Box::new(insim::net::tokio_impl::WebsocketStream::from(client_ws)),
            Codec::new(sc.mode.to_mode()),
        );

        let mut stream: Vec<u8> = Vec::new();
        let mut frames_read = 0usize;
        let mut stopped = false;
        let last_send = sc.steps.iter().rposition(|s| matches!(s, WsStep::Send(_)));
        macro_rules! read_completed {
            ($stopped:ident) => {{
                    let complete = split_frames(sc.mode, &stream).iter().filter(|f| f.kind == FrameKind::Complete).count();
                    while frames_read < complete {
                        let f = &split_frames(sc.mode, &stream)[frames_read];
                        let is_ka = matches!(expect_for(sc.mode, false, &stream[f.start..f.start + f.len]), Expect::Pkt { keepalive: true, .. });
                        let t_read = std::time::Instant::now();
                        let res = match tokio::time::timeout(GUARD, framed.read()).await {
                            Err(_) => AppRes::Other("no result within the 3 s guard although the server's messages were already sent".into()),
                            Ok(r) => to_res(r),
                        };
                        let slow = t_read.elapsed().as_millis() >= SLOW_MS;
                        let stop = !matches!(res, AppRes::Pkt(_) | AppRes::Decode(_) | AppRes::IncompatibleVersion(_));
                        events.push(WEv::Read { res, slow });
                        frames_read += 1;
                        if stop {
                            $stopped = true;
                            break;
                        }
                        if is_ka {
                            match server_next(&mut server).await {
                                Some(m) => events.push(WEv::ServerGot { msg: m }),
                                None => events.push(WEv::ServerGotNothing),
                            }
                        }
                    }
            }};
        }
        'steps: for (si, st) in sc.steps.iter().enumerate() {
            match st {
                WsStep::Send(msgs) => {
                    for m in msgs {
                        let (msg, kind, len) = match m {
                            WsMsg::Binary(b) => {
                                stream.extend_from_slice(b);
                                (Message::binary(b.clone()), "binary", b.len())
                            },
                            WsMsg::Text(t) => (Message::Text(t.clone()), "text", t.len()),
                            WsMsg::Ping(p) => (Message::Ping(p.clone()), "ping", p.len()),
                            WsMsg::Pong(p) => (Message::Pong(p.clone()), "pong", p.len()),
                        };
                        match tokio::time::timeout(GUARD, server.send(msg)).await {
                            Ok(Ok(())) => {},
                            Ok(Err(e)) => return Err(format!("server send: {}", e)),
                            Err(_) => return Err("server send blocked".into()),
                        }
                        events.push(WEv::ServerSent { kind, len });
                    }
                    if sc.late_read && Some(si) == last_send {
                        // read after the server has ended the session
                        continue;
                    }
                    read_completed!(stopped);
                    if stopped {
                        break 'steps;
                    }
                },
                WsStep::CancelledRead => {
                    let completed = match tokio::time::timeout(Duration::ZERO, framed.read()).await {
                        Err(_) => None,
                        Ok(r) => Some(to_res(r)),
                    };
                    events.push(WEv::Cancelled { completed });
                },
                WsStep::AbandonedBurst { count, pad, last, ka } => {
                    let Some(last_p) = ref_decode_packet(sc.mode, last).1 else { continue };
                    let mut outcome = Vec::new();
                    let mut failed = None;
                    for k in 0..*count as usize {
                        let p = burst_packet(k, *pad);
                        let mut fut = Box::pin(framed.write(p));
                        let mut done = None;
                        for _ in 0..2 {
                            let r = std::future::poll_fn(|cx| std::task::Poll::Ready(std::future::Future::poll(fut.as_mut(), cx))).await;
                            if let std::task::Poll::Ready(r) = r {
                                done = Some(r);
                                break;
                            }
                            tokio::task::yield_now().await;
                        }
                        drop(fut);
                        match done {
                            None => outcome.push(0u8),
                            Some(Ok(())) => outcome.push(1),
                            Some(Err(e)) => {
                                outcome.push(2);
                                failed = Some(AppRes::from_err(&e));
                                break;
                            },
                        }
                    }
                    let want_last = ref_encode(sc.mode, &last_p).map(|b| format!("binary:{}", hex::enc(&b))).unwrap_or_default();
                    let cap = *count as usize + 8;
                    // (only between frames: the keep-alive must not land inside a frame that an
                    // earlier step left half sent)
                    let want_ka = *ka && failed.is_none() && split_frames(sc.mode, &stream).iter().all(|f| f.kind == FrameKind::Complete);
                    if want_ka {
                        let _ = tokio::time::timeout(GUARD, server.send(Message::Binary(sc.mode.pong().to_vec()))).await;
                    }
                    let cli = async {
                        let ka_read = if want_ka {
                            Some(match tokio::time::timeout(GUARD * 4, framed.read()).await {
                                Err(_) => AppRes::Other("the keep-alive sent by the relay was not returned within 12 s although the relay was reading again".into()),
                                Ok(r) => to_res(r),
                            })
                        } else {
                            None
                        };
                        let last = match tokio::time::timeout(GUARD * 4, framed.write(last_p)).await {
                            Err(_) => AppRes::Other("write did not finish within 12 s although the server was reading again".into()),
                            Ok(Ok(())) => AppRes::Done,
                            Ok(Err(e)) => AppRes::from_err(&e),
                        };
                        (ka_read, last)
                    };
                    let srv = async {
                        let mut got = Vec::new();
                        while got.len() < cap {
                            match server_next(&mut server).await {
                                Some(m) => {
                                    let fin = m == want_last || m.starts_with('<');
                                    got.push(m);
                                    if fin {
                                        break;
                                    }
                                },
                                None => {
                                    got.push("<nothing within 3 s>".into());
                                    break;
                                },
                            }
                        }
                        got
                    };
                    let ((ka_read, last), got) = tokio::join!(cli, srv);
                    if std::env::var("VERIF_DEBUG").is_ok() {
                        let ones: Vec<usize> = outcome.iter().enumerate().filter(|(_, o)| **o == 1).map(|(i, _)| i).collect();
                        eprintln!("abandoned: completed {:?} of {}; last {:?}; got {} msgs; tail {:?}", ones, outcome.len(), last, got.len(), got.iter().rev().take(3).map(|s| s.chars().take(40).collect::<String>()).collect::<Vec<_>>());
                    }
                    events.push(WEv::Abandoned { outcome, failed, ka_read, last, got });
                },
                WsStep::WriteBurst(fs) => {
                    let pkts: Vec<insim::Packet> = fs.iter().filter_map(|f| ref_decode_packet(sc.mode, f).1).collect();
                    let n = pkts.len();
                    let cli = async {
                        let mut wrote = Vec::new();
                        for p in pkts {
                            let res = match tokio::time::timeout(GUARD * 2, framed.write(p)).await {
                                Err(_) => AppRes::Other("write did not finish within 6 s although the server was reading".into()),
                                Ok(Ok(())) => AppRes::Done,
                                Ok(Err(e)) => AppRes::from_err(&e),
                            };
                            let bad = res != AppRes::Done;
                            wrote.push(res);
                            if bad {
                                break;
                            }
                        }
                        wrote
                    };
                    let srv = async {
                        tokio::time::sleep(Duration::from_millis(15)).await;
                        let mut got = Vec::new();
                        for _ in 0..n {
                            match server_next(&mut server).await {
                                Some(m) => got.push(m),
                                None => {
                                    got.push("<nothing within 3 s>".into());
                                    break;
                                },
                            }
                        }
                        got
                    };
                    let (wrote, got) = tokio::join!(cli, srv);
                    events.push(WEv::Burst { wrote, got });
                },
                WsStep::Write(f) => {
                    let Some(p) = ref_decode_packet(sc.mode, f).1 else { continue };
                    let res = match tokio::time::timeout(GUARD, framed.write(p)).await {
                        Err(_) => AppRes::Other("write did not finish within the 3 s guard".into()),
                        Ok(Ok(())) => AppRes::Done,
                        Ok(Err(e)) => AppRes::from_err(&e),
                    };
                    events.push(WEv::Wrote { res });
                    match server_next(&mut server).await {
                        Some(m) => events.push(WEv::ServerGot { msg: m }),
                        None => events.push(WEv::ServerGotNothing),
                    }
                },
            }
        }
        if stopped {
            return Ok(());
        }
        // the end of the session
        if sc.late_read {
            // the server ends the session first: close frame (optional) then FIN, its read side
            // stays open; only then does the client read what the last Send step delivered
            if sc.end == WsEnd::Close {
                let _ = tokio::time::timeout(GUARD, server.close(close_frame(sc.close_code))).await;
            }
            {
                use tokio::io::AsyncWriteExt;
                let _ = tokio::time::timeout(GUARD, server.get_mut().shutdown()).await;
            }
            read_completed!(stopped);
            if stopped {
                return Ok(());
            }
            let r = tokio::time::timeout(GUARD * 2, framed.read()).await;
            events.push(WEv::End {
                res: match r {
                    Err(_) => AppRes::Other("read after the end of the stream did not return within 6 s".into()),
                    Ok(r) => to_res(r),
                },
            });
            drop(server);
            return Ok(());
        }
        match sc.end {
            WsEnd::Close => {
                let srv = async {
                    let _ = tokio::time::timeout(GUARD, server.close(close_frame(sc.close_code))).await;
                    // let the client's close reply arrive, then drop the TCP stream
                    let _ = tokio::time::timeout(Duration::from_millis(200), server.next()).await;
                    drop(server);
                };
                let cli = async { tokio::time::timeout(GUARD * 2, framed.read()).await };
                let (_, r) = tokio::join!(srv, cli);
                events.push(WEv::End {
                    res: match r {
                        Err(_) => AppRes::Other("read after close did not return within 6 s".into()),
                        Ok(r) => to_res(r),
                    },
                });
            },
            WsEnd::Abandon => {
                let mut big = Vec::new();
                for k in 0..2500u32 {
                    big.extend_from_slice(&gen::tiny(sc.mode, (k % 200) as u8 + 1, 3));
                }
                let _ = tokio::time::timeout(GUARD, server.send(Message::binary(big))).await;
                let r = tokio::time::timeout(GUARD, framed.read()).await;
                events.push(WEv::End {
                    res: match r {
                        Err(_) => AppRes::Other("no result within 3 s".into()),
                        Ok(r) => to_res(r),
                    },
                });
                drop(framed);
                drop(server);
            },
            WsEnd::Drop | WsEnd::None => {
                drop(server);
                let r = tokio::time::timeout(GUARD * 2, framed.read()).await;
                events.push(WEv::End {
                    res: match r {
                        Err(_) => AppRes::Other("read after the server vanished did not return within 6 s".into()),
                        Ok(r) => to_res(r),
                    },
                });
            },
        }
        Ok(())
    })));
    crate::model::leave_guard();
    let r = match r {
        Err(_) => {
            events.push(WEv::Read { res: AppRes::Other(format!("panic: {}", crate::model::take_panic_msg())), slow: false });
            Ok(())
        },
        Ok(x) => x,
    };
    WsRun {
        events,
        harness_error: r.err(),
    }
}

fn render(e: &Expect) -> String {
    match e {
        Expect::Pkt { dbg, .. } => format!("pkt:{}", dbg),
        Expect::Decode => "decode-error".into(),
        Expect::BadVersion(v) => format!("badver:{}", v),
        Expect::Unmodelled => "unmodelled".into(),
    }
}

fn render_res(r: &AppRes) -> String {
    match r {
        AppRes::Pkt(d) => format!("pkt:{}", d),
        AppRes::Decode(_) => "decode-error".into(),
        other => format!("{:?}", other),
    }
}

impl Prop for C20 {
    type Sc = WsSc;

    fn id(&self) -> &'static str {
        "C20"
    }
    fn level(&self) -> &'static str {
        "exploration"
    }
    fn runs(&self, tier: Tier) -> u64 {
        match tier {
            Tier::Quick => 600,
            Tier::Thorough => 30_000,
        }
    }
    fn max_workers(&self) -> usize {
        8
    }

    fn generate(&self, rng: &mut Rng, _tier: Tier, stats: &mut GenStats) -> WsSc {
        // the relay speaks uncompressed; compressed is run too
        let mode = if rng.chance(2, 3) { SizeMode::Uncompressed } else { SizeMode::Compressed };
        let mut mix = FrameMix::swarm(rng);
        mix.ver = 0;
        let giant = rng.chance(1, 25);
        let target = match rng.below(10) {
            _ if giant => rng.usize(66_000, 140_000),
            0 => rng.usize(8_000, 30_000),
            1..=3 => rng.usize(1_000, 8_000),
            _ => rng.usize(4, 1_000),
        };
        let frames = gen::gen_frames_to_target(rng, mode, &mix, target, 40_000, stats);
        let (stream, ends) = gen::concat(&frames);
        // partition the byte stream into binary messages
        // a giant session travels as one message (or very few): beyond any 16-bit length
        let style = if giant { 4 } else { rng.below(6) };
        let mut cuts: Vec<usize> = Vec::new();
        match style {
            0 => cuts = ends.clone(),                                            // one frame per message
            1 => {
                // several whole frames per message
                let mut i = 0;
                while i < ends.len() {
                    i += rng.small(8) as usize;
                    cuts.push(ends[i.min(ends.len()) - 1]);
                }
            },
            2 => {
                // anywhere, small
                let mut p = 0;
                while p < stream.len() {
                    p += rng.usize(1, 30);
                    cuts.push(p.min(stream.len()));
                }
            },
            3 => {
                // anywhere, large: messages bigger than the adaptor buffer (1020) and the connection buffer (6120)
                let mut p = 0;
                while p < stream.len() {
                    p += rng.usize(900, 9000);
                    cuts.push(p.min(stream.len()));
                }
            },
            4 => cuts.push(stream.len()), // everything in one message
            _ => {
                // frame boundaries shifted by a few bytes: every message starts inside a frame
                let sh = rng.usize(1, 3);
                for e in &ends {
                    if e + sh < stream.len() {
                        cuts.push(e + sh);
                    }
                }
                cuts.push(stream.len());
            },
        }
        cuts.dedup();
        if cuts.last() != Some(&stream.len()) {
            cuts.push(stream.len());
        }
        let with_other = rng.chance(2, 3);
        let cancels = rng.chance(1, 2);
        let storms = rng.chance(1, 3);
        let mut storm_at: Vec<usize> = Vec::new();
        let mut msgs: Vec<WsMsg> = Vec::new();
        let mut p = 0;
        for c in cuts {
            if c <= p {
                continue;
            }
            if storms && rng.chance(1, 40) {
                // a long run of control / text messages in front of the next data message
                for _ in 0..rng.usize(33, 90) {
                    msgs.push(match rng.below(3) {
                        0 => WsMsg::Text("relay says hi".into()),
                        1 => WsMsg::Ping(vec![1, 2]),
                        _ => WsMsg::Pong(vec![3]),
                    });
                }
                storm_at.push(msgs.len());
            }
            if with_other && rng.chance(1, 6) {
                msgs.push(match rng.below(4) {
                    0 => WsMsg::Text(gen_text(rng)),
                    1 => {
                        let n = rng.usize(0, 8);
                        WsMsg::Ping(rng.bytes(n))
                    },
                    2 => {
                        let n = rng.usize(0, 8);
                        WsMsg::Pong(rng.bytes(n))
                    },
                    _ => WsMsg::Binary(vec![]),
                });
            }
            msgs.push(WsMsg::Binary(stream[p..c].to_vec()));
            p = c;
        }
        // sometimes leave a partial frame at the very end
        let mut end = match rng.below(8) {
            0 | 1 => WsEnd::Drop,
            2 => WsEnd::Abandon,
            _ => WsEnd::Close,
        };
        if rng.chance(1, 8) {
            let extra = gen::gen_frame(rng, mode, &mix, stats);
            let cut = rng.usize(1, extra.len() - 1);
            msgs.push(WsMsg::Binary(extra[..cut].to_vec()));
            if end == WsEnd::Drop {
                end = WsEnd::None;
            }
        }
        // batch into steps, interleave writes
        let mut steps = Vec::new();
        let mut it = msgs.into_iter().peekable();
        while it.peek().is_some() {
            let k = rng.small(4) as usize;
            let mut batch = Vec::new();
            let mut bytes = 0usize;
            for j in 0..(k + 100) {
                // a run of non-binary messages always travels together with the data message
                // that follows it
                let in_storm = matches!(batch.last(), Some(WsMsg::Text(_) | WsMsg::Ping(_) | WsMsg::Pong(_)));
                if j >= k && !in_storm {
                    break;
                }
                if let Some(m) = it.next() {
                    if let WsMsg::Binary(b) = &m {
                        bytes += b.len();
                    }
                    batch.push(m);
                    if bytes > 24_000 && !giant {
                        break;
                    }
                }
            }
            steps.push(WsStep::Send(batch));
            if cancels && rng.chance(1, 5) {
                steps.push(WsStep::CancelledRead);
            }
            if rng.chance(1, 10) {
                steps.push(WsStep::Write(gen::gen_out_frame(rng, mode, stats)));
            }
        }
        // a burst of writes against a reader that starts late (back-pressure on the write half)
        if rng.chance(1, 6) {
            let n = rng.usize(40, 400);
            let big = rng.chance(2, 3);
            let mut fs = Vec::new();
            for _ in 0..n {
                let mut f = gen::gen_out_frame(rng, mode, stats);
                if big {
                    for _ in 0..8 {
                        if f.len() >= 96 {
                            break;
                        }
                        f = gen::gen_out_frame(rng, mode, stats);
                    }
                }
                fs.push(f);
            }
            let at = rng.usize(0, steps.len());
            steps.insert(at, WsStep::WriteBurst(fs));
        }
        // writes abandoned against a relay that has stopped reading
        if rng.chance(1, 12) {
            let pad = *rng.pick(&[0u32, 20, 60, 100, 110]);
            // enough for the socket buffers plus the 128 KiB the WebSocket layer buffers
            let count = ((170 * 1024) / (20 + pad as usize) + rng.usize(8, 200)) as u32;
            // short and unlike any burst frame: the server recognises the end of the step by it
            let last = gen::tiny(mode, 0xAB, 3);
            let at = rng.usize(0, steps.len());
            let ka = rng.chance(1, 2);
            steps.insert(at, WsStep::AbandonedBurst { count, pad, last, ka });
        }
        // in a third of the sessions the end of the stream is already queued behind the last
        // messages when the application gets round to reading them; the sentinel then goes
        // before the last Send step
        let late_read = end != WsEnd::Abandon && rng.chance(1, 3);
        // sentinel write: flushes out anything unexpected the client may have sent
        let mut sentinel = vec![mode.size_byte(8), 4, 0xEE, 0, 0xAA, 0xBB, 0xCC, 0xDD];
        if !ref_decode_packet(mode, &sentinel).0.is_pkt() {
            sentinel = gen::tiny(mode, 0xEE, 3);
        }
        if late_read {
            let at = steps.iter().rposition(|s| matches!(s, WsStep::Send(_))).unwrap_or(steps.len());
            // no writes after the server has gone: move everything after the last Send before it
            let tail: Vec<WsStep> = steps.drain(at + 1..).collect();
            let last = steps.pop();
            steps.extend(tail);
            steps.push(WsStep::Write(sentinel));
            if let Some(l) = last {
                steps.push(l);
            }
        } else {
            steps.push(WsStep::Write(sentinel));
        }
        let close_code = if rng.chance(1, 2) { 0 } else { *rng.pick(&[1000u16, 1001, 1012, 1008, 1011, 4000]) };
        let _ = &storm_at;
        let direct = rng.chance(1, 10);
        if direct {
            steps.retain(|s| matches!(s, WsStep::Send(_)));
        }
        WsSc { mode, steps, end, late_read, close_code, trace: rng.chance(1, 8), direct }
    }

    fn execute(&self, sc: &WsSc) -> RunReport {
        let mut rep = RunReport::default();
        let run = run_ws(sc);
        if run.harness_error.is_some() {
            rep.probe("harness_socket_error");
            return rep;
        }
        let tag = format!("[ws/{:?}{}]", sc.mode, if sc.direct { "/adaptor read directly" } else { "" });
        let pong = format!("binary:{}", hex::enc(&sc.mode.pong()));
        let evs = &run.events;
        if sc.direct {
            // the frames a framing reader gets out of the adaptor are the frames that were sent
            rep.probe("adaptor_read_with_read_exact");
            let mut stream: Vec<u8> = Vec::new();
            for st in &sc.steps {
                if let WsStep::Send(msgs) = st {
                    for m in msgs {
                        if let WsMsg::Binary(b) = m {
                            stream.extend_from_slice(b);
                        }
                    }
                }
            }
            let frames = split_frames(sc.mode, &stream);
            let mut h = Fnv::default();
            let mut k = 0usize;
            for e in evs.iter() {
                match e {
                    WEv::DirectRead { frame } => {
                        let Some(f) = frames.get(k) else { break };
                        let want = hex::enc(&stream[f.start..f.start + f.len]);
                        match frame {
                            Ok(got) if *got == want => {
                                h.write(got.as_bytes());
                            },
                            Ok(got) => {
                                rep.violations.push(v("ws.direct_read", format!("{} frame {} read with read_exact is {} but {} was sent", tag, k, got.chars().take(80).collect::<String>(), want.chars().take(80).collect::<String>())));
                                break;
                            },
                            Err(why) => {
                                rep.violations.push(v("ws.direct_read", format!("{} frame {} ({} bytes, sent in full): {}", tag, k, f.len, why)));
                                break;
                            },
                        }
                        k += 1;
                    },
                    WEv::Read { res: AppRes::Other(m), .. } if m.starts_with("panic: ") => {
                        rep.violations.push(v("ws.panic", format!("{} the adaptor panicked after {} frames: {}", tag, k, m)));
                        break;
                    },
                    _ => {},
                }
            }
            rep.nontrivial = true;
            let mut sig = Fnv::default();
            sig.u64(99);
            sig.u64(frames.len().min(16) as u64);
            rep.signature = sig.finish();
            rep.trace_hash = h.finish();
            return rep;
        }
        let mut i = 0usize;
        let mut h = Fnv::default();
        // every binary message the relay receives is one frame: as long as its size byte says
        {
            let mut msgs: Vec<&String> = Vec::new();
            for e in evs.iter() {
                match e {
                    WEv::ServerGot { msg } => msgs.push(msg),
                    WEv::Burst { got, .. } | WEv::Abandoned { got, .. } => msgs.extend(got.iter()),
                    _ => {},
                }
            }
            for m in msgs {
                if let Some(hx) = m.strip_prefix("binary:") {
                    if let Ok(b) = hex::dec(hx) {
                        if !b.is_empty() && sc.mode.announced(b[0]) != b.len() {
                            rep.violations.push(v(
                                "ws.message_not_one_frame",
                                format!("{} the relay received a binary message of {} bytes whose size byte announces {}: {}", tag, b.len(), sc.mode.announced(b[0]), hx.chars().take(80).collect::<String>()),
                            ));
                            break;
                        }
                    }
                }
            }
        }
        // a panic anywhere in the session (in a read, a write, a burst) ends it; where it
        // happened is the number of events recorded before it
        if let Some(WEv::Read { res: AppRes::Other(m), .. }) = evs.last() {
            if let Some(msg) = m.strip_prefix("panic: ") {
                rep.violations.push(v("ws.panic", format!("{} the connection panicked after {} completed steps / reads: {}", tag, evs.len() - 1, msg)));
            }
        }
        let mut sig = Fnv::default();
        let mut stream: Vec<u8> = Vec::new();
        let mut frames_read = 0usize;
        let mut binary_msgs = 0usize;
        let mut stopped = false;
        let mut slow_reads: Vec<usize> = Vec::new();
        let last_send = sc.steps.iter().rposition(|s| matches!(s, WsStep::Send(_)));
        macro_rules! check_completed {
            () => {{
                    let frames = split_frames(sc.mode, &stream);
                    let complete = frames.iter().filter(|f| f.kind == FrameKind::Complete).count();
                    while frames_read < complete {
                        let f = &frames[frames_read];
                        let e = expect_for(sc.mode, false, &stream[f.start..f.start + f.len]);
                        let want = render(&e);
                        let Some(WEv::Read { res, slow }) = evs.get(i) else {
                            stopped = true;
                            break;
                        };
                        i += 1;
                        frames_read += 1;
                        let got = render_res(res);
                        h.write(got.as_bytes());
                        if e == Expect::Unmodelled {
                            stopped = true;
                            break;
                        }
                        if got != want {
                            let clause = match res {
                                AppRes::Pkt(_) | AppRes::Decode(_) => "ws.wrong_packet",
                                _ => "ws.read_failed",
                            };
                            rep.violations.push(v(
                                clause,
                                format!("{} read #{} ({} binary messages, {} bytes so far): expected {}, got {}", tag, frames_read, binary_msgs, stream.len(), want.chars().take(140).collect::<String>(), got.chars().take(200).collect::<String>()),
                            ));
                            stopped = true;
                            break;
                        }
                        if *slow {
                            slow_reads.push(frames_read);
                        }
                        if matches!(e, Expect::Pkt { keepalive: true, .. }) {
                            rep.probe("keepalive_over_ws");
                            match evs.get(i) {
                                Some(WEv::ServerGot { msg }) => {
                                    i += 1;
                                    if *msg != pong {
                                        rep.violations.push(v("ws.reply_message", format!("{} after a keep-alive the server received {} instead of one binary message {}", tag, msg.chars().take(100).collect::<String>(), pong)));
                                        stopped = true;
                                        break;
                                    }
                                },
                                Some(WEv::ServerGotNothing) => {
                                    rep.violations.push(v("ws.reply_message", format!("{} a keep-alive was read but no reply reached the server within 3 s", tag)));
                                    stopped = true;
                                    break;
                                },
                                _ => {
                                    stopped = true;
                                    break;
                                },
                            }
                        }
                    }
            }};
        }
        'steps: for (si, st) in sc.steps.iter().enumerate() {
            match st {
                WsStep::Send(msgs) => {
                    let mut run = 0usize;
                    for m in msgs {
                        if matches!(m, WsMsg::Binary(_)) {
                            run = 0;
                        } else {
                            run += 1;
                            if run == 33 {
                                rep.probe("control_message_storm");
                            }
                        }
                        match evs.get(i) {
                            Some(WEv::ServerSent { .. }) => i += 1,
                            _ => {
                                stopped = true;
                                break 'steps;
                            },
                        }
                        match m {
                            WsMsg::Binary(b) => {
                                let before = split_frames(sc.mode, &stream).iter().filter(|f| f.kind == FrameKind::Complete).count();
                                let mid_frame = match split_frames(sc.mode, &stream).last() {
                                    Some(f) => f.kind != FrameKind::Complete,
                                    None => false,
                                };
                                stream.extend_from_slice(b);
                                let after = split_frames(sc.mode, &stream).iter().filter(|f| f.kind == FrameKind::Complete).count();
                                binary_msgs += 1;
                                if b.is_empty() {
                                    rep.fault("empty_binary_message");
                                }
                                if b.len() > 1020 {
                                    rep.probe("ws_msg_gt_1020");
                                }
                                if b.len() > 6120 {
                                    rep.probe("ws_msg_gt_6120");
                                }
                                if b.len() > 65_535 {
                                    rep.probe("ws_msg_gt_65535");
                                }
                                if after - before >= 2 {
                                    rep.probe("several_frames_per_message");
                                }
                                if mid_frame {
                                    rep.probe("frame_split_across_messages");
                                }
                                sig.u64(1);
                                sig.u64((b.len() as u64 + 1).ilog2() as u64);
                                sig.u64((after - before).min(4) as u64);
                                sig.u64(mid_frame as u64);
                            },
                            WsMsg::Text(_) => {
                                rep.fault("text_message");
                                sig.u64(2);
                            },
                            WsMsg::Ping(_) => {
                                rep.fault("ping_message");
                                sig.u64(3);
                            },
                            WsMsg::Pong(_) => {
                                rep.fault("pong_message");
                                sig.u64(4);
                            },
                        }
                    }
                    if sc.late_read && Some(si) == last_send {
                        continue;
                    }
                    check_completed!();
                    if stopped {
                        break 'steps;
                    }
                },
                WsStep::CancelledRead => {
                    let Some(WEv::Cancelled { completed }) = evs.get(i) else {
                        stopped = true;
                        break 'steps;
                    };
                    i += 1;
                    rep.fault("read_dropped_after_first_poll");
                    // only a read with a partial frame (or nothing) buffered can be pending; if all
                    // frames sent so far have been read, completing is a phantom
                    if let Some(r) = completed {
                        rep.violations.push(v("ws.phantom_result", format!("{} a read started with every sent frame already delivered completed at once with {:?}", tag, r)));
                        stopped = true;
                        break 'steps;
                    }
                },
                WsStep::AbandonedBurst { count, pad, last, ka } => {
                    let Some(want_last) = ref_decode_packet(sc.mode, last).1.and_then(|p| ref_encode(sc.mode, &p).ok()).map(|b| format!("binary:{}", hex::enc(&b))) else { continue };
                    // expected message per write, by the reference encoder on its own
                    let mut index: std::collections::HashMap<String, usize> = std::collections::HashMap::new();
                    for k in 0..*count as usize {
                        match ref_encode(sc.mode, &burst_packet(k, *pad)) {
                            Ok(b) => {
                                let _ = index.insert(format!("binary:{}", hex::enc(&b)), k);
                            },
                            Err(_) => {
                                rep.probe("expected_frame_not_encodable");
                            },
                        }
                    }
                    let Some(WEv::Abandoned { outcome, failed, ka_read, last: last_res, got }) = evs.get(i) else {
                        stopped = true;
                        break 'steps;
                    };
                    i += 1;
                    rep.fault("writes_abandoned_against_a_stalled_reader");
                    let dropped = outcome.iter().filter(|o| **o == 0).count();
                    if dropped >= 2 {
                        rep.probe("writes_dropped_while_pending");
                    }
                    if let Some(e) = failed {
                        rep.violations.push(v("ws.write_failed", format!("{} write #{} of {} against a stalled reader failed instead of waiting: {:?}", tag, outcome.len() - 1, count, e)));
                        stopped = true;
                        break 'steps;
                    }
                    let ka = &(*ka && split_frames(sc.mode, &stream).iter().all(|f| f.kind == FrameKind::Complete));
                    if *ka {
                        rep.probe("keepalive_answered_behind_a_backlog");
                        match ka_read {
                            Some(AppRes::Pkt(d)) if d.contains("subt: None") => {},
                            other => {
                                rep.violations.push(v("ws.read_failed", format!("{} the keep-alive sent while {} writes were backed up was not returned: {:?}", tag, count, other)));
                                stopped = true;
                                break 'steps;
                            },
                        }
                    }
                    if *last_res != AppRes::Done {
                        rep.violations.push(v("ws.write_failed", format!("{} the write after the reader had resumed failed: {:?}", tag, last_res)));
                        stopped = true;
                        break 'steps;
                    }
                    // every message is exactly one written frame (each write's frame is unique);
                    // they arrive in the order written and at most once (a dropped write may or
                    // may not have got as far as the transport); completed writes all arrive;
                    // the last message is the write awaited in full
                    let mut bad: Option<String> = None;
                    let mut prev: Option<usize> = None;
                    let mut seen_completed = 0usize;
                    let mut replies = 0usize;
                    for (mi, m) in got.iter().enumerate() {
                        if *ka && mi + 1 != got.len() && *m == pong {
                            // the one reply to the keep-alive, queued behind whatever was queued
                            replies += 1;
                            continue;
                        }
                        if mi + 1 == got.len() {
                            if *m != want_last {
                                bad = Some(format!("the last message seen by the server is {} but the write awaited in full was {}", m.chars().take(80).collect::<String>(), want_last.chars().take(80).collect::<String>()));
                            }
                            break;
                        }
                        match index.get(m) {
                            None => {
                                bad = Some(format!(
                                    "message #{} seen by the server ({} bytes: {}) is not one written frame (several frames in one message, a torn frame, or something never written)",
                                    mi,
                                    m.len().saturating_sub(7) / 2,
                                    m.chars().take(80).collect::<String>()
                                ));
                                break;
                            },
                            Some(k) => {
                                if prev.map(|p| *k <= p).unwrap_or(false) {
                                    bad = Some(format!("message #{} is the frame of write #{} but write #{} had already arrived (repeated or out of order)", mi, k, prev.unwrap()));
                                    break;
                                }
                                if outcome.get(*k) == Some(&1) {
                                    seen_completed += 1;
                                }
                                prev = Some(*k);
                            },
                        }
                    }
                    if bad.is_none() && *ka && replies != 1 {
                        rep.violations.push(v("ws.reply_message", format!("{} one keep-alive was received while {} writes were backed up behind a relay that had stopped reading: {} replies reached the relay", tag, count, replies)));
                        stopped = true;
                        break 'steps;
                    }
                    let completed = outcome.iter().filter(|o| **o == 1).count();
                    if bad.is_none() && seen_completed < completed {
                        bad = Some(format!("{} writes completed but only {} of their frames reached the server before the last one", completed, seen_completed));
                    }
                    if prev.map(|p| p >= outcome.len().saturating_sub(1)).unwrap_or(false) || got.len() > 200 {
                        rep.probe("abandoned_burst_filled_ws_buffer");
                    }
                    if let Some(b) = bad {
                        rep.violations.push(v("ws.abandoned_burst_messages", format!("{} {} writes ({} dropped after two polls) against a reader that had stopped, then resumed: {}", tag, count, dropped, b)));
                        stopped = true;
                        break 'steps;
                    }
                },
                WsStep::WriteBurst(fs) => {
                    let exp: Vec<String> = fs
                        .iter()
                        .filter_map(|f| ref_decode_packet(sc.mode, f).1)
                        .filter_map(|p| ref_encode(sc.mode, &p).ok())
                        .map(|b| format!("binary:{}", hex::enc(&b)))
                        .collect();
                    let Some(WEv::Burst { wrote, got }) = evs.get(i) else {
                        stopped = true;
                        break 'steps;
                    };
                    i += 1;
                    rep.fault("write_burst_against_slow_reader");
                    rep.probe_n("burst_bytes", exp.iter().map(|e| (e.len() - 7) as u64 / 2).sum());
                    h.write(format!("{:?}", got.len()).as_bytes());
                    if let Some(bad) = wrote.iter().find(|r| **r != AppRes::Done) {
                        rep.violations.push(v("ws.write_failed", format!("{} a write inside a burst of {} failed: {:?}", tag, exp.len(), bad)));
                        stopped = true;
                        break 'steps;
                    }
                    if *got != exp {
                        let k = got.iter().zip(exp.iter()).position(|(a, b)| a != b).unwrap_or(got.len().min(exp.len()));
                        let dup = k > 0 && got.get(k) == exp.get(k - 1);
                        rep.violations.push(v(
                            "ws.burst_messages",
                            format!(
                                "{} burst of {} writes against a slow reader: message #{} seen by the server is {} but write #{} was {}{}",
                                tag,
                                exp.len(),
                                k,
                                got.get(k).map(|s| s.chars().take(60).collect::<String>()).unwrap_or_default(),
                                k,
                                exp.get(k).map(|s| s.chars().take(60).collect::<String>()).unwrap_or_default(),
                                if dup { " (a repeat of the previous frame)" } else { "" }
                            ),
                        ));
                        stopped = true;
                        break 'steps;
                    }
                },
                WsStep::Write(f) => {
                    let Some(p) = ref_decode_packet(sc.mode, f).1 else { continue };
                    let Ok(exp) = ref_encode(sc.mode, &p) else { continue };
                    let Some(WEv::Wrote { res }) = evs.get(i) else {
                        stopped = true;
                        break 'steps;
                    };
                    i += 1;
                    if *res != AppRes::Done {
                        rep.violations.push(v("ws.write_failed", format!("{} write of a {}-byte frame failed: {:?}", tag, exp.len(), res)));
                        stopped = true;
                        break 'steps;
                    }
                    rep.probe("ws_write");
                    let want = format!("binary:{}", hex::enc(&exp));
                    match evs.get(i) {
                        Some(WEv::ServerGot { msg }) => {
                            i += 1;
                            h.write(msg.as_bytes());
                            if *msg != want {
                                rep.violations.push(v(
                                    "ws.write_message",
                                    format!("{} write of {} reached the server as {}", tag, hex::enc(&exp), msg.chars().take(160).collect::<String>()),
                                ));
                                stopped = true;
                                break 'steps;
                            }
                        },
                        Some(WEv::ServerGotNothing) => {
                            rep.violations.push(v("ws.write_message", format!("{} write of {} never reached the server", tag, hex::enc(&exp))));
                            stopped = true;
                            break 'steps;
                        },
                        _ => {
                            stopped = true;
                            break 'steps;
                        },
                    }
                },
            }
        }
        if !stopped && sc.late_read {
            rep.fault("end_of_stream_queued_behind_unread_data");
            check_completed!();
        }
        if !stopped {
            if let Some(WEv::End { res }) = evs.get(i) {
                let partial_left = split_frames(sc.mode, &stream).last().map(|f| f.kind != FrameKind::Complete).unwrap_or(false);
                if partial_left {
                    rep.probe("ended_with_partial_frame");
                }
                match sc.end {
                    WsEnd::Close => {
                        rep.probe("clean_close");
                        if sc.close_code != 0 && sc.close_code != 1000 {
                            rep.probe("close_with_other_status");
                        }
                        if *res != AppRes::Disconnected {
                            rep.violations.push(v("ws.close_not_disconnected", format!("{} after a clean close handshake read returned {:?} instead of Disconnected", tag, res)));
                        }
                    },
                    WsEnd::Abandon => {
                        rep.fault("connection_abandoned_with_message_buffered");
                        if partial_left {
                            // the big message then continues a partial frame: not judged
                        } else if !matches!(res, AppRes::Pkt(d) if d.contains("RequestId(1)") && d.contains("Ping")) {
                            rep.violations.push(v("ws.wrong_packet", format!("{} first frame of the last (large) message: {:?}", tag, res)));
                        }
                    },
                    WsEnd::Drop | WsEnd::None => {
                        rep.probe("abrupt_drop");
                        match res {
                            AppRes::Disconnected | AppRes::Io { .. } => {},
                            AppRes::Other(s) if s.starts_with("WebsocketIO") => {},
                            other => rep.violations.push(v("ws.drop_result", format!("{} after the server vanished read returned {:?}", tag, other))),
                        }
                    },
                }
                h.write(res.class().as_bytes());
            }
        }
        if !slow_reads.is_empty() && rep.violations.is_empty() {
            // a stalled read that only the guard timer woke up: confirm by running the same
            // scenario again (a scheduling hiccup does not repeat, a lost wake-up does)
            let again = run_ws(sc);
            let mut n = 0usize;
            let mut slow2 = Vec::new();
            for e in &again.events {
                if let WEv::Read { slow, .. } = e {
                    n += 1;
                    if *slow {
                        slow2.push(n);
                    }
                }
            }
            if let Some(k) = slow_reads.iter().find(|k| slow2.contains(k)) {
                rep.violations.push(v(
                    "ws.read_stalled",
                    format!("{} read #{} returned its packet only after >= 2 s although every message it needed had been sent before it started, twice in a row: the read did not arrange to be woken and sat until an unrelated timer fired", tag, k),
                ));
            } else {
                rep.probe("slow_read_not_reproduced");
            }
        }
        rep.trace_hash = h.finish();
        rep.signature = sig.finish();
        rep.nontrivial = binary_msgs > 1;
        rep
    }

    fn trace(&self, sc: &WsSc) -> Value {
        let run = run_ws(sc);
        let n = run.events.len();
        let tail: Vec<&WEv> = run.events.iter().skip(n.saturating_sub(60)).collect();
        json!({"events_total": n, "last_events": tail, "harness_error": run.harness_error})
    }

    fn shrink(&self, sc: &WsSc) -> Vec<WsSc> {
        let mut c = Vec::new();
        let n = sc.steps.len();
        // Removing a Send step may leave the stream desynchronised; such candidates simply stop
        // failing the same clause (or fail it for a boring reason and get shrunk further).
        for (a, b) in [(n / 2, n), (0, n / 2)] {
            if a < b && b - a < n {
                let mut s = sc.clone();
                let _ = s.steps.drain(a..b);
                c.push(s);
            }
        }
        if n <= 120 {
            for i in 0..n {
                let mut s = sc.clone();
                let _ = s.steps.remove(i);
                c.push(s);
            }
        }
        for i in 0..n.min(120) {
            if let WsStep::Send(ms) = &sc.steps[i] {
                if ms.len() > 1 {
                    for j in 0..ms.len() {
                        if !matches!(ms[j], WsMsg::Binary(ref b) if !b.is_empty()) {
                            let mut s = sc.clone();
                            if let WsStep::Send(x) = &mut s.steps[i] {
                                let _ = x.remove(j);
                            }
                            c.push(s);
                        }
                    }
                }
            }
        }
        if sc.end != WsEnd::Close {
            let mut s = sc.clone();
            s.end = WsEnd::Close;
            c.push(s);
        }
        c
    }

    fn preludes(&self, _sc: &WsSc) -> Vec<WsSc> {
        let mut v = Vec::new();
        for mode in [SizeMode::Compressed, SizeMode::Uncompressed] {
            v.push(WsSc {
                mode,
                steps: vec![WsStep::Send(vec![WsMsg::Binary(mode.pong().to_vec())])],
                end: WsEnd::Close,
                late_read: false,
                close_code: 0,
                trace: false,
                direct: false,
            });
            // a connection abandoned with most of a large message still undelivered
            v.push(WsSc {
                mode,
                steps: vec![],
                end: WsEnd::Abandon,
                late_read: false,
                close_code: 0,
                trace: false,
                direct: false,
            });
            // a connection abandoned with a partial frame received
            v.push(WsSc {
                mode,
                steps: vec![WsStep::Send(vec![WsMsg::Binary(vec![mode.size_byte(8), 4, 1])])],
                end: WsEnd::None,
                late_read: false,
                close_code: 0,
                trace: false,
                direct: false,
            });
        }
        v
    }

    fn repro_variants(&self, sc: &WsSc) -> Vec<WsSc> {
        // tracing keeps a process-wide callsite cache: a case found with `trace: false` while
        // another worker had a subscriber reproduces on its own only with `trace: true`
        if sc.trace {
            vec![]
        } else {
            let mut v = sc.clone();
            v.trace = true;
            vec![v]
        }
    }

    fn rule(&self) -> String {
        "Each case is one WebSocket session over a loopback TCP pair: a frame stream is partitioned into binary messages (one frame per message, several per message, cut anywhere in small or large pieces incl. messages larger than 1020 and 6120 bytes, every message starting inside a frame, everything in one message), interleaved with text / ping / pong / empty binary messages; the server sends them in batches and after each batch the real Framed over the real WebsocketStream reads every completed frame; the application occasionally writes; the session ends with a close handshake or an abrupt TCP drop. Oracle: reads return the model's result per frame of the concatenated binary payloads; a keep-alive or a write reaches the server as exactly one binary message equal to the frame; clean close => Disconnected; abrupt drop => Disconnected or an I/O error, never a packet, never a hang. Non-trivial = more than one binary message; distinct = sequence of (message kind, log2 size, frames completed, starts-inside-a-frame).".into()
    }
    fn assumptions(&self) -> Vec<String> {
        vec![
            "kernel loopback TCP as a dumb pipe; both WebSocket ends built with from_raw_socket (no HTTP upgrade, which the library hard-wires to isrelay.lfs.net)".into(),
            "real time in this world: each awaited call is guarded by 3 s (expected ~100 us); expiry is reported as a failed read".into(),
            "tungstenite answers pings itself; that is not asserted".into(),
            "write bursts: client send buffer and server receive buffer are shrunk to the kernel minimum and the server starts reading 15 ms late, so the burst meets back-pressure; which write meets it is decided by the kernel, the observable outcome (message sequence seen by the server) must not depend on it".into(),
            "late reads: the server queues its close frame and/or FIN (write half shut down, read half kept open so that no RST can destroy queued data) before the client reads the last messages".into(),
            "'all caller read-buffer sizes' is covered only as far as the connection's own spare capacity varies over a session (sessions up to 30 KB)".into(),
        ]
    }
    fn components(&self) -> Value {
        json!({
            "real": ["insim::net::tokio_impl::WebsocketStream", "insim::net::tokio_impl::Framed", "Codec", "tokio-tungstenite client protocol engine", "kernel loopback TCP", "tokio I/O driver (real time)"],
            "stub": ["relay (scripted tungstenite server endpoint in the same runtime)", "application (lock-step reads and writes)"],
        })
    }
    fn required(&self, _tier: Tier) -> Vec<&'static str> {
        vec![
            "ws_msg_gt_1020",
            "ws_msg_gt_6120",
            "several_frames_per_message",
            "frame_split_across_messages",
            "text_message",
            "ping_message",
            "pong_message",
            "empty_binary_message",
            "keepalive_over_ws",
            "ws_write",
            "clean_close",
            "abrupt_drop",
            "ended_with_partial_frame",
            "write_burst_against_slow_reader",
            "close_with_other_status",
            "read_dropped_after_first_poll",
            "control_message_storm",
            "ws_msg_gt_65535",
            "connection_abandoned_with_message_buffered",
            "end_of_stream_queued_behind_unread_data",
        ]
    }
}
