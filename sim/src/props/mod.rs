pub mod c05;
pub mod c06;
pub mod c07;
pub mod c09;
pub mod c19;
pub mod c04;
pub mod c18;
pub mod c08;
