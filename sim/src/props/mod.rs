pub mod c05;
