//! The only source of randomness in the simulator: one xoshiro256** stream
//! seeded (through SplitMix64) from a single integer.

#[inline]
pub fn splitmix64(state: &mut u64) -> u64 {
    *state = state.wrapping_add(0x9E37_79B9_7F4A_7C15);
    let mut z = *state;
    z = (z ^ (z >> 30)).wrapping_mul(0xBF58_476D_1CE4_E5B9);
    z = (z ^ (z >> 27)).wrapping_mul(0x94D0_49BB_1331_11EB);
    z ^ (z >> 31)
}

/// Seed of run `i` of a batch started with `VERIF_SEED = base`.
pub fn run_seed(base: u64, i: u64) -> u64 {
    let mut s = base ^ i.wrapping_mul(0x9E37_79B9_7F4A_7C15).rotate_left(17) ^ 0xD6E8_FEB8_6659_FD93;
    let a = splitmix64(&mut s);
    a ^ splitmix64(&mut s).rotate_left(32)
}

#[derive(Clone, Debug)]
pub struct Rng {
    s: [u64; 4],
}

impl Rng {
    pub fn new(seed: u64) -> Self {
        let mut sm = seed;
        let s = [
            splitmix64(&mut sm),
            splitmix64(&mut sm),
            splitmix64(&mut sm),
            splitmix64(&mut sm),
        ];
        Rng { s }
    }

    #[inline]
    pub fn next_u64(&mut self) -> u64 {
        let result = self.s[1].wrapping_mul(5).rotate_left(7).wrapping_mul(9);
        let t = self.s[1] << 17;
        self.s[2] ^= self.s[0];
        self.s[3] ^= self.s[1];
        self.s[1] ^= self.s[2];
        self.s[0] ^= self.s[3];
        self.s[2] ^= t;
        self.s[3] = self.s[3].rotate_left(45);
        result
    }

    /// uniform in 0..n (n > 0)
    #[inline]
    pub fn below(&mut self, n: u64) -> u64 {
        debug_assert!(n > 0);
        // multiply-shift; bias is irrelevant here
        ((self.next_u64() as u128 * n as u128) >> 64) as u64
    }

    /// uniform in lo..=hi
    #[inline]
    pub fn range(&mut self, lo: u64, hi: u64) -> u64 {
        debug_assert!(lo <= hi);
        lo + self.below(hi - lo + 1)
    }

    #[inline]
    pub fn usize(&mut self, lo: usize, hi: usize) -> usize {
        self.range(lo as u64, hi as u64) as usize
    }

    /// true with probability num/den
    #[inline]
    pub fn chance(&mut self, num: u64, den: u64) -> bool {
        self.below(den) < num
    }

    #[inline]
    pub fn byte(&mut self) -> u8 {
        (self.next_u64() >> 24) as u8
    }

    pub fn bytes(&mut self, n: usize) -> Vec<u8> {
        let mut v = Vec::with_capacity(n);
        while v.len() < n {
            let x = self.next_u64().to_le_bytes();
            let take = (n - v.len()).min(8);
            v.extend_from_slice(&x[..take]);
        }
        v
    }

    pub fn pick<'a, T>(&mut self, xs: &'a [T]) -> &'a T {
        &xs[self.below(xs.len() as u64) as usize]
    }

    /// geometric-ish small number: 1 + number of successive 1/2 coin flips, capped
    pub fn small(&mut self, cap: u64) -> u64 {
        let mut n = 1;
        while n < cap && self.chance(1, 2) {
            n += 1;
        }
        n
    }

    pub fn fork(&mut self) -> Rng {
        Rng::new(self.next_u64())
    }
}

/// Fixed-key 64-bit FNV-1a, used for trace hashes and signatures (never `DefaultHasher`,
/// whose keys are random per process).
#[derive(Clone, Copy)]
pub struct Fnv(pub u64);

impl Default for Fnv {
    fn default() -> Self {
        Fnv(0xcbf2_9ce4_8422_2325)
    }
}

impl Fnv {
    #[inline]
    pub fn write(&mut self, bytes: &[u8]) {
        for b in bytes {
            self.0 ^= *b as u64;
            self.0 = self.0.wrapping_mul(0x0000_0100_0000_01B3);
        }
    }
    #[inline]
    pub fn u64(&mut self, x: u64) {
        self.write(&x.to_le_bytes());
    }
    pub fn finish(&self) -> u64 {
        self.0
    }
}
