//! Plain-data scenarios for the stream world. A scenario is everything a run depends on;
//! `execute(scenario)` uses no PRNG and no wall clock.

use serde::{Deserialize, Serialize};

pub mod hex {
    use serde::{Deserialize, Deserializer, Serializer};

    pub fn enc(b: &[u8]) -> String {
        let mut s = String::with_capacity(b.len() * 2);
        for x in b {
            s.push_str(&format!("{:02x}", x));
        }
        s
    }

    pub fn dec(s: &str) -> Result<Vec<u8>, String> {
        if s.len() % 2 != 0 {
            return Err("odd hex length".into());
        }
        (0..s.len())
            .step_by(2)
            .map(|i| u8::from_str_radix(&s[i..i + 2], 16).map_err(|e| e.to_string()))
            .collect()
    }

    pub fn serialize<S: Serializer>(b: &Vec<u8>, s: S) -> Result<S::Ok, S::Error> {
        s.serialize_str(&enc(b))
    }

    pub fn deserialize<'de, D: Deserializer<'de>>(d: D) -> Result<Vec<u8>, D::Error> {
        let s = String::deserialize(d)?;
        dec(&s).map_err(serde::de::Error::custom)
    }
}

pub mod hexvec {
    use serde::{Deserialize, Deserializer, Serialize, Serializer};

    pub fn serialize<S: Serializer>(b: &Vec<Vec<u8>>, s: S) -> Result<S::Ok, S::Error> {
        let v: Vec<String> = b.iter().map(|x| super::hex::enc(x)).collect();
        v.serialize(s)
    }
    pub fn deserialize<'de, D: Deserializer<'de>>(d: D) -> Result<Vec<Vec<u8>>, D::Error> {
        let v = Vec::<String>::deserialize(d)?;
        v.iter().map(|s| super::hex::dec(s).map_err(serde::de::Error::custom)).collect()
    }
}

#[derive(Serialize, Deserialize, Clone, Copy, Debug, PartialEq, Eq, PartialOrd, Ord)]
pub enum Imp {
    Blocking,
    Tokio,
}

#[derive(Serialize, Deserialize, Clone, Copy, Debug, PartialEq, Eq, PartialOrd, Ord)]
pub enum SizeMode {
    Compressed,
    Uncompressed,
}

impl SizeMode {
    pub fn to_mode(self) -> insim::net::Mode {
        match self {
            SizeMode::Compressed => insim::net::Mode::Compressed,
            SizeMode::Uncompressed => insim::net::Mode::Uncompressed,
        }
    }
    /// announced length for a size byte
    pub fn announced(self, b: u8) -> usize {
        match self {
            SizeMode::Compressed => b as usize * 4,
            SizeMode::Uncompressed => b as usize,
        }
    }
    pub fn max_len(self) -> usize {
        match self {
            SizeMode::Compressed => 1020,
            SizeMode::Uncompressed => 255,
        }
    }
    pub fn size_byte(self, len: usize) -> u8 {
        match self {
            SizeMode::Compressed => (len / 4) as u8,
            SizeMode::Uncompressed => len as u8,
        }
    }
    pub fn pong(self) -> [u8; 4] {
        [self.size_byte(4), 3, 0, 0]
    }
}

#[derive(Serialize, Deserialize, Clone, Copy, Debug, PartialEq, Eq, PartialOrd, Ord)]
pub enum ErrKind {
    Interrupted,
    WouldBlock,
    TimedOut,
    ConnectionReset,
    BrokenPipe,
    WriteZero,
}

impl ErrKind {
    pub fn to_io(self) -> std::io::ErrorKind {
        match self {
            ErrKind::Interrupted => std::io::ErrorKind::Interrupted,
            ErrKind::WouldBlock => std::io::ErrorKind::WouldBlock,
            ErrKind::TimedOut => std::io::ErrorKind::TimedOut,
            ErrKind::ConnectionReset => std::io::ErrorKind::ConnectionReset,
            ErrKind::BrokenPipe => std::io::ErrorKind::BrokenPipe,
            ErrKind::WriteZero => std::io::ErrorKind::WriteZero,
        }
    }
    pub fn from_io(k: std::io::ErrorKind) -> Option<ErrKind> {
        Some(match k {
            std::io::ErrorKind::Interrupted => ErrKind::Interrupted,
            std::io::ErrorKind::WouldBlock => ErrKind::WouldBlock,
            std::io::ErrorKind::TimedOut => ErrKind::TimedOut,
            std::io::ErrorKind::ConnectionReset => ErrKind::ConnectionReset,
            std::io::ErrorKind::BrokenPipe => ErrKind::BrokenPipe,
            std::io::ErrorKind::WriteZero => ErrKind::WriteZero,
            _ => return None,
        })
    }
}

/// What the link does on the next call of the read half.
#[derive(Serialize, Deserialize, Clone, Debug, PartialEq, Eq)]
pub enum ReadEv {
    /// the next n bytes of the inbound stream become available as one segment
    Data(usize),
    /// not ready (async only; skipped by the blocking executor)
    Pending,
    /// not ready, and the simulated clock moves on by this many ms (async only)
    Stall(u64),
    /// transient transport error
    Err(ErrKind),
    /// the peer closed; every later call returns 0 bytes
    Eof,
}

/// What the link does on the next call of the write half.
#[derive(Serialize, Deserialize, Clone, Debug, PartialEq, Eq)]
pub enum WriteEv {
    /// accept min(k, offered) bytes, at least 1
    Accept(usize),
    /// accept all but k of the offered bytes, at least 1
    AllBut(usize),
    /// not ready (async only; skipped by the blocking executor)
    Pending,
    /// not ready + clock moves (async only)
    Stall(u64),
    /// transport error
    Err(ErrKind),
    /// the transport accepts nothing: Ok(0) for a non-empty buffer ("cannot take any more")
    Zero,
}

/// What the link does on the next flush of the write half.
#[derive(Serialize, Deserialize, Clone, Debug, PartialEq, Eq)]
pub enum FlushEv {
    Ok,
    /// not ready (async only)
    Pending,
    /// not ready + clock moves (async only)
    Stall(u64),
}

/// What the application task does next.
#[derive(Serialize, Deserialize, Clone, Debug, PartialEq, Eq)]
pub enum AppOp {
    /// call read() and drive it to completion
    Read,
    /// call write(packet), packet = reference-decode of this frame; drive to completion
    Write(#[serde(with = "hex")] Vec<u8>),
    /// start a read(), poll it at most `polls` times, drop it if still pending (async only)
    ReadCancel { polls: u32 },
    /// start a write(packet), poll it at most `polls` times, drop it if still pending (async
    /// only; the blocking executor runs it to completion)
    WriteCancel {
        #[serde(with = "hex")]
        frame: Vec<u8>,
        polls: u32,
    },
    /// let simulated time pass with no operation in flight (async only)
    Advance(u64),
    /// keep calling read() until Disconnected / fatal, at most `max` times
    Drain { max: u32 },
    /// handshake(isi) where isi is the reference-decode of this frame (must be an ISI)
    Handshake(#[serde(with = "hex")] Vec<u8>),
}

#[derive(Serialize, Deserialize, Clone, Debug, PartialEq, Eq)]
pub struct StreamScenario {
    pub imp: Imp,
    pub mode: SizeMode,
    pub verify_version: bool,
    /// false (only meaningful with verify_version == false): never call the setter, relying on
    /// the documented default of `Framed::new`
    #[serde(default = "yes")]
    pub explicit_gate: bool,
    #[serde(with = "hex")]
    pub inbound: Vec<u8>,
    pub reads: Vec<ReadEv>,
    pub writes: Vec<WriteEv>,
    /// script of the write half's flush (async only; empty = always ready)
    #[serde(default)]
    pub flushes: Vec<FlushEv>,
    /// the transport buffers what it accepts and only hands it to the peer on a successful
    /// flush, as the shipped WebSocket adaptor does (tokio executor only)
    #[serde(default)]
    pub buffered: bool,
    /// further calls of the verify_version setter before the session starts (the last one must
    /// equal `verify_version`): the gate follows the latest call
    #[serde(default)]
    pub gate_calls: Vec<bool>,
    /// run with a tracing subscriber that enables every span and event (thread-scoped)
    #[serde(default)]
    pub trace: bool,
    /// C09 only: instead of `Framed::new` over the simulated link, make the connection with the
    /// real `Builder` (0 = tcp, 1 = udp) against a loopback peer that sends `inbound` frame by
    /// frame; the gate setting then travels through `Builder::verify_version`
    #[serde(default)]
    pub via_builder: Option<u8>,
    pub ops: Vec<AppOp>,
}

fn yes() -> bool {
    true
}

impl StreamScenario {
    pub fn size_measure(&self) -> usize {
        self.inbound.len() + 4 * self.reads.len() + 4 * self.writes.len() + 8 * self.ops.len()
    }
}
