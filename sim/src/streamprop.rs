//! Helpers shared by the stream-world properties: shrinking and trace rendering.

use serde_json::{json, Value};

use crate::{
    driver::RunReport,
    oracle::{analyze, trace_hash},
    exec,
    model::{split_frames, FrameKind},
    scenario::{hex, AppOp, ReadEv, StreamScenario, WriteEv},
};

pub fn trace_json(sc: &StreamScenario) -> Value {
    let out = exec::run(sc);
    json!({
        "events": serde_json::to_value(&out.trace).unwrap(),
        "peer_received_hex": hex::enc(&out.out),
        "inbound_bytes_delivered": out.delivered,
        "simulated_ms": out.sim_ms,
    })
}

fn without_frames(sc: &StreamScenario, from: usize, to: usize) -> Option<StreamScenario> {
    let frames = split_frames(sc.mode, &sc.inbound);
    if from >= to || to > frames.len() {
        return None;
    }
    let a = frames[from].start;
    let b = frames[to - 1].start + frames[to - 1].len;
    let mut s = sc.clone();
    let _ = s.inbound.drain(a..b);
    Some(s)
}

pub fn shrink_stream(sc: &StreamScenario) -> Vec<StreamScenario> {
    let mut c: Vec<StreamScenario> = Vec::new();
    let frames = split_frames(sc.mode, &sc.inbound);
    let nfr = frames.len();

    // 1. drop whole groups of frames
    if nfr > 1 {
        for (a, b) in [(nfr / 2, nfr), (0, nfr / 2), (nfr / 4, nfr / 2), (nfr / 2, 3 * nfr / 4)] {
            if let Some(s) = without_frames(sc, a, b) {
                c.push(s);
            }
        }
    }
    // 2. all link faults away / no segmentation at all
    if !sc.reads.is_empty() {
        let mut s = sc.clone();
        s.reads.clear();
        c.push(s);
        let mut s = sc.clone();
        s.reads.retain(|e| matches!(e, ReadEv::Data(_) | ReadEv::Eof));
        if s.reads.len() < sc.reads.len() {
            c.push(s);
        }
        let mut s = sc.clone();
        s.reads.retain(|e| !matches!(e, ReadEv::Data(_)));
        if s.reads.len() < sc.reads.len() {
            c.push(s);
        }
    }
    if !sc.writes.is_empty() {
        let mut s = sc.clone();
        s.writes.clear();
        c.push(s);
        let mut s = sc.clone();
        s.writes.retain(|e| !matches!(e, WriteEv::Pending | WriteEv::Stall(_)));
        if s.writes.len() < sc.writes.len() {
            c.push(s);
        }
    }
    // 3. halves of the scripts
    for (a, b) in [(0usize, 2usize), (1, 2)] {
        let n = sc.reads.len();
        if n > 3 {
            let mut s = sc.clone();
            let lo = a * n / b;
            let hi = (a + 1) * n / b;
            let _ = s.reads.drain(lo..hi);
            c.push(s);
        }
        let n = sc.ops.len();
        if n > 2 {
            let mut s = sc.clone();
            let lo = a * n / b;
            let hi = ((a + 1) * n / b).min(n);
            let _ = s.ops.drain(lo..hi);
            c.push(s);
        }
        let n = sc.writes.len();
        if n > 3 {
            let mut s = sc.clone();
            let lo = a * n / b;
            let hi = (a + 1) * n / b;
            let _ = s.writes.drain(lo..hi);
            c.push(s);
        }
    }
    // 4. single frames
    if nfr <= 80 {
        for i in 0..nfr {
            if let Some(s) = without_frames(sc, i, i + 1) {
                c.push(s);
            }
        }
    }
    // trailing partial / garbage
    if let Some(last) = frames.last() {
        if last.kind != FrameKind::Complete {
            let mut s = sc.clone();
            s.inbound.truncate(last.start);
            c.push(s);
        }
    }
    // 5. single ops
    if sc.ops.len() <= 80 {
        for i in 0..sc.ops.len() {
            let mut s = sc.clone();
            let _ = s.ops.remove(i);
            c.push(s);
        }
    }
    // 6. single link events, merging of Data
    if sc.reads.len() <= 120 {
        for i in 0..sc.reads.len() {
            let mut s = sc.clone();
            let _ = s.reads.remove(i);
            c.push(s);
        }
        for i in 0..sc.reads.len().saturating_sub(1) {
            if let (ReadEv::Data(a), ReadEv::Data(b)) = (&sc.reads[i], &sc.reads[i + 1]) {
                let mut s = sc.clone();
                s.reads[i] = ReadEv::Data(a + b);
                let _ = s.reads.remove(i + 1);
                c.push(s);
            }
        }
    }
    if sc.writes.len() <= 120 {
        for i in 0..sc.writes.len() {
            let mut s = sc.clone();
            let _ = s.writes.remove(i);
            c.push(s);
        }
    }
    // 7. smaller numbers
    for i in 0..sc.ops.len().min(80) {
        match &sc.ops[i] {
            AppOp::ReadCancel { polls } if *polls > 0 => {
                for np in [0, polls / 2, polls - 1] {
                    if np < *polls {
                        let mut s = sc.clone();
                        s.ops[i] = AppOp::ReadCancel { polls: np };
                        c.push(s);
                    }
                }
            },
            AppOp::WriteCancel { frame, polls } => {
                let mut s = sc.clone();
                s.ops[i] = AppOp::Write(frame.clone());
                c.push(s);
                if *polls > 0 {
                    let mut s = sc.clone();
                    s.ops[i] = AppOp::WriteCancel { frame: frame.clone(), polls: polls - 1 };
                    c.push(s);
                }
            },
            AppOp::Write(f) if f.len() > 4 => {
                let mut s = sc.clone();
                s.ops[i] = AppOp::Write(vec![sc.mode.size_byte(4), 3, 1, 3]);
                c.push(s);
            },
            _ => {},
        }
    }
    for i in 0..sc.reads.len().min(120) {
        if let ReadEv::Stall(ms) = &sc.reads[i] {
            for nm in [90_000u64, 1] {
                if nm < *ms {
                    let mut s = sc.clone();
                    s.reads[i] = ReadEv::Stall(nm);
                    c.push(s);
                }
            }
        }
    }
    // 8. replace a frame body by a minimal TINY (keeps count, shrinks bytes)
    if nfr <= 40 {
        for f in frames.iter().filter(|f| f.kind == FrameKind::Complete && f.len > 4) {
            let mut s = sc.clone();
            let _ = s.inbound.splice(f.start..f.start + f.len, [sc.mode.size_byte(4), 3, 1, 3]);
            c.push(s);
        }
    }
    c
}

/// Run one scenario on its own implementation and keep the violations `owns` accepts.
pub fn exec_and_filter(sc: &StreamScenario, owns: &dyn Fn(&str) -> bool) -> RunReport {
    let out = exec::run(sc);
    let an = analyze(sc, &out);
    let mut rep = RunReport::default();
    rep.trace_hash = trace_hash(&out);
    rep.sim_ms = out.sim_ms;
    rep.signature = an.facts.signature;
    rep.nontrivial = an.facts.nontrivial;
    rep.merge_maps(&an.facts.probes, &an.facts.faults);
    for x in an.violations {
        if owns(&x.clause) {
            rep.violations.push(crate::oracle::Violation {
                clause: x.clause,
                detail: format!("[{:?}/{:?}] {}", sc.imp, sc.mode, x.detail),
            });
        }
    }
    rep
}

pub fn stream_components() -> Value {
    json!({
        "real": ["insim::net::blocking_impl::Framed", "insim::net::tokio_impl::Framed", "insim::net::Codec / Mode", "Packet::maybe_pong", "Packet::maybe_verify_version", "tokio::time (paused clock, advanced only by the simulator)"],
        "stub": ["transport (SimStream: scripted Read/Write/AsyncRead/AsyncWrite)", "peer (byte script + capture of everything written)", "application task (scripted read/write/cancel/advance)", "executor (library futures polled by hand, one poll per step)"],
    })
}

/// Earlier activity in the same process that a stateful library might remember: a one-frame
/// keep-alive session in each size mode and implementation.
pub fn stream_preludes(_sc: &StreamScenario) -> Vec<StreamScenario> {
    let mut v = Vec::new();
    for mode in [crate::scenario::SizeMode::Compressed, crate::scenario::SizeMode::Uncompressed] {
        for imp in [crate::scenario::Imp::Blocking, crate::scenario::Imp::Tokio] {
            v.push(StreamScenario {
                imp,
                mode,
                verify_version: true,
                explicit_gate: true,
                flushes: vec![],
                buffered: false,
                gate_calls: vec![],
                trace: false,
                via_builder: None,
                inbound: mode.pong().to_vec(),
                reads: vec![],
                writes: vec![],
                ops: vec![AppOp::Drain { max: 3 }],
            });
            // a connection abandoned with received-but-unconsumed bytes: two whole frames of
            // which only the first is read, and a frame cut short by the end of the stream
            let mut two = crate::gen::tiny(mode, 0x31, 3);
            two.extend_from_slice(&crate::gen::tiny(mode, 0x32, 3));
            v.push(StreamScenario {
                imp,
                mode,
                verify_version: false,
                explicit_gate: true,
                flushes: vec![],
                buffered: false,
                gate_calls: vec![],
                trace: false,
                via_builder: None,
                inbound: two,
                reads: vec![],
                writes: vec![],
                ops: vec![AppOp::Read],
            });
            v.push(StreamScenario {
                imp,
                mode,
                verify_version: false,
                explicit_gate: true,
                flushes: vec![],
                buffered: false,
                gate_calls: vec![],
                trace: false,
                via_builder: None,
                inbound: vec![mode.size_byte(8), 4, 1],
                reads: vec![],
                writes: vec![],
                ops: vec![AppOp::Read],
            });
        }
    }
    v
}
