//! A tracing subscriber that enables every span and event and throws them away after
//! formatting their fields (so that field expressions and Debug impls really run). Installed
//! per run and per thread with `with_tracing`, never globally: whether an application has a
//! subscriber at TRACE level is part of the configuration space.

use tracing::{span, Event, Metadata, Subscriber};

struct Sink;

struct Fmt(u64);

impl tracing::field::Visit for Fmt {
    fn record_debug(&mut self, _field: &tracing::field::Field, value: &dyn std::fmt::Debug) {
        // format into a small bounded buffer: the work is what matters, not the text
        use std::fmt::Write;
        let mut s = String::new();
        let _ = write!(s, "{:?}", value);
        self.0 = self.0.wrapping_add(s.len() as u64);
    }
}

impl Subscriber for Sink {
    fn enabled(&self, _: &Metadata<'_>) -> bool {
        true
    }
    fn new_span(&self, attrs: &span::Attributes<'_>) -> span::Id {
        let mut f = Fmt(0);
        attrs.record(&mut f);
        span::Id::from_u64(1)
    }
    fn record(&self, _: &span::Id, values: &span::Record<'_>) {
        let mut f = Fmt(0);
        values.record(&mut f);
    }
    fn record_follows_from(&self, _: &span::Id, _: &span::Id) {}
    fn event(&self, event: &Event<'_>) {
        let mut f = Fmt(0);
        event.record(&mut f);
    }
    fn enter(&self, _: &span::Id) {}
    fn exit(&self, _: &span::Id) {}
}

pub fn with_tracing<T>(on: bool, f: impl FnOnce() -> T) -> T {
    if on {
        let d = tracing::Dispatch::new(Sink);
        tracing::dispatcher::with_default(&d, f)
    } else {
        f()
    }
}
