#!/usr/bin/env bash
# Determinism self-test: for every check, run the same seeds in separate processes at worker
# counts 1, 4 and 16 (twice at 16) and compare the per-run trace hashes. Any difference = exit 1.
# usage: tools/determinism.sh [seed ...]      (default seeds: 1 7 20260927)
set -u
cd "$(dirname "$0")/.."
./check build || exit 2
BIN=./sim/target/release/insim_sim
OUT=$(mktemp -d)
trap 'rm -rf "$OUT"' EXIT
SEEDS="${*:-1 7 20260927}"
rc=0
for id in C04 C05 C06 C07 C09 C17 C18 C19 C08 C20; do
  case $id in C08|C20) N=250;; *) N=3000;; esac
  for seed in $SEEDS; do
    i=0
    for w in 1 4 16 16; do
      i=$((i+1))
      VERIF_SEED=$seed VERIF_NO_SWEEP=1 $BIN $id quick --runs $N --workers $w --hashes "$OUT/$id.$seed.$i" --no-evidence >"$OUT/$id.$seed.$i.log" 2>&1
      ec=$?
      if [ $ec -ne 0 ]; then echo "$id seed=$seed workers=$w: exit $ec"; tail -n 3 "$OUT/$id.$seed.$i.log"; rc=1; fi
    done
    for j in 2 3 4; do
      if ! cmp -s "$OUT/$id.$seed.1" "$OUT/$id.$seed.$j"; then
        echo "NON-DETERMINISTIC: $id seed=$seed run 1 vs run $j differ in $(diff "$OUT/$id.$seed.1" "$OUT/$id.$seed.$j" | grep -c '^<') runs"
        rc=1
      fi
    done
    echo "$id seed=$seed: $(wc -l < "$OUT/$id.$seed.1") runs x 4 processes (workers 1,4,16,16) identical=$([ $rc -eq 0 ] && echo yes || echo NO)"
  done
done
exit $rc
