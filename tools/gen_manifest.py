#!/usr/bin/env python3
"""Regenerates /verif/MANIFEST.json from the table below (kept in one place so that it stays valid)."""
import json, os
ROOT = os.path.dirname(os.path.dirname(os.path.abspath(__file__)))

NA = {
 "C01": "pure function of (packet value, size mode): no schedule, clock, fault or second party in the statement; decided by covering the value domain (property-based round-trip), which a simulator could only carry inputs to",
 "C02": "pure: wire layout versus the InSim v9 specification needs an independent table-driven reference codec (differential / translation validation), not a simulator",
 "C03": "pure function of (packet, mode): the failing inputs are sizes and parities of one encoded frame, not histories or fault sequences",
 "C10": "pure string<->bytes codepage functions; exhaustive byte-level input enumeration is the deciding method, nothing to schedule or fault",
 "C11": "pure function of (string, field width); no time, I/O or interleaving",
 "C12": "pure string functions (escaping / colour stripping); small-alphabet exhaustive enumeration decides it",
 "C13": "pure function over 2^32 values (vehicle <-> 4 bytes); exhaustive enumeration decides it",
 "C14": "static table cross-check of track data; no behaviour over time at all",
 "C15": "pure numeric conversions (durations, race laps); a domain sweep decides it",
 "C16": "pure parse/print/order functions over game-version values",
}

CHECKS = {
 "C05": ("exploration", "7/C05, 3, 4.1",
   "Seeded deterministic simulation of whole read sessions through the real blocking and tokio Framed over a scripted transport (segmentation, transient errors, Pending, stalls in simulated time, EOF), checked frame by frame against a sequential reference model, plus every partition of a list of short streams. Sampling, not proof: right level because the property quantifies over schedules/histories that only an executor owning the transport and clock can reach.",
   "Trusted: the reference call Codec::decode on one isolated frame defines the packet for a frame; the hand-written SimStream/LinkState; tokio's paused clock. Transport never over-fills the offered slice.",
   "deterministic simulation: seeded link/fault scripts + sequential reference model (refinement), blocking==tokio differential"),
 "C06": ("exploration", "7/C06, 3, 4.1",
   "Seeded simulation of write sessions over a transport that accepts k in 1..=offered bytes per call or answers Pending (tokio: optionally buffering until flushed, with a flush that may be Pending; blocking: EINTR), interleaved with keep-alive reads, dropped reads and abandoned writes; every byte the peer captures must continue the frame in flight or a keep-alive reply, and Ok means the whole frame is on the wire and flushed.",
   "Trusted: Codec::encode(p) is the expected frame; SimStream write half. Transport never fails / never returns 0 (excluded by the property).",
   "deterministic simulation: short-write / Pending fault injection on the write half + byte-exact wire oracle"),
 "C07": ("exploration", "7/C07, 3",
   "Seeded sessions mixing keep-alives with every TINY sub-type/request id and all other kinds (gate on or off) under random segmentation, with a write half that is healthy, slow, buffering, or refusing whole replies (error / Ok(0)), and dropped reads; plus the complete (sub-type, reqi) sweep; oracle counts replies on the captured wire at every event.",
   "Trusted: keep-alive := reference decode is Tiny{None, reqi 0}; healthy write half in this workload.",
   "deterministic simulation: history checker over captured outgoing bytes (reply-count invariants per event) + exhaustive (subtype, reqi) sweep"),
 "C09": ("exploration", "7/C09",
   "Complete sweep of the 256 InSim version values x gate on/off/default x both implementations x both modes inside short random histories, plus seeded histories with VER frames anywhere (non-zero spare bytes, handshakes asking for other versions, dropped reads under a slow write half); per-frame comparison against the model's gate decision, which reads the reported version from the wire by the specification; the gate stays accountable after a rejection.",
   "Trusted: the version byte is read from the reference decode; after a correct rejection nothing further is demanded.",
   "deterministic simulation: exhaustive version-value sweep + seeded histories against the reference model"),
 "C04": ("fault_enumeration", "7/C04",
   "Six enumerated fault spaces (every (size byte, type byte) header x both modes x two fills; every byte position of one frame per packet kind x substitute values (all 256 in the thorough tier); every truncation point of those frames followed by valid frames; multi-byte text patterns at every body position; every pair of body positions of short frames x enumerant-range value pairs; the body filled with one non-zero value and one byte replaced by NUL / ^ / 0x80 at every position), base frames including templates for kinds that refuse an all-zero body, plus seeded multi-fault sessions, delivered in scripted segments into one long-lived receive buffer; the property's invariants (no panic, need-more leaves the buffer untouched, exactly the announced frame removed, framing error for impossible lengths, result independent of following bytes and of what the same Codec saw in another buffer) are checked after every decoder call, and the same streams run through both real connections.",
   "'For all byte strings' is sampled apart from the enumerated sub-spaces. Built with overflow-checks and debug-assertions on. Trusted: catch_unwind boundary, hand-written invariant checker.",
   "fault enumeration over header/byte/truncation spaces + seeded corruption sessions, invariants after every decoder call"),
 "C08": ("exploration", "7/C08, 4.2",
   "Real blocking and tokio UdpStream adaptors inside the real Framed over kernel loopback sockets driven in lock-step from one thread: seeded datagram sequences (1..n frames per datagram, 4..1020 bytes, fixed-shape or mixed, peer-side loss/duplication/reordering) up to ~10x the receive buffer, reads into an empty queue (socket timeout), peer crash and restart on the same port (ICMP error queued on the connection's socket, with and without a buffered keep-alive), packets the encoder refuses, connections made by the real Builder, datagrams from another address on the peer's host; each read must return the model's next frame, each keep-alive and each write that returns Ok must reach the peer as exactly one datagram holding exactly its frame.",
   "Loopback kernel sockets are a real component: order-preserving and lossless at <= 8 datagrams in flight; real time with a 3 s guard per call. Honest scripting over a real pipe, not full simulation (DESIGN 4.2).",
   "seeded lock-step scripting of real adaptors over loopback (datagram loss/dup/reorder applied by the peer script) against the sequential model"),
 "C17": ("fault_enumeration", "7/C17, 4.3",
   "Generated canonical PTH/SMX images driven through an in-memory faulty disk: every truncation point of small files (structural + sampled for larger, plus the shipped sample files), short reads/EINTR/EIO, saves with short writes/EINTR/ENOSPC, crash after k durable bytes with prefix / zero-filled / stale-tail survivors re-parsed, files behind a prefix in the stream, byzantine count fields and random bytes under a counting allocator (huge requests reserved, not committed, so they are measured instead of aborting), and real temp files for from_file/from_pathbuf incl. hostile counts.",
   "The library has no durability protocol: crash = writer dies after k accepted bytes. Allocation failure not injected, only size bounded (64 x input + 64 KiB). Image generator encodes the on-disk formats independently of the library.",
   "crash-point / truncation enumeration + seeded disk-fault scripts (short, EINTR, EIO, ENOSPC, torn tails) with round-trip and rejection oracles"),
 "C18": ("exploration", "7/C18",
   "Seeded builder call sequences (0..40 calls, all setters, overriding, clearing, tcp/udp with and without local address) against a last-writer-wins model, field by field; complete sweep of each single-flag setter from each of the 2^10 flag states; a third of the cases run Framed::handshake over the simulated link with short writes/Pending/transient errors and compare the peer's bytes with an ISI frame laid out by hand from the specification; ~1% run the real connect_blocking/connect_async against loopback TCP/UDP peers and require the ISI as first and only frame.",
   "Builder->Isi is a pure function: the simulator contributes configuration swarm and decides only the I/O half. Relay connect paths are unreachable offline. UDP 'only frame' = no second datagram within 30 ms.",
   "configuration exploration against a reference model + simulated handshake under write faults + real connect over loopback"),
 "C20": ("exploration", "7/C20, 4.2",
   "Real WebsocketStream inside the real tokio Framed against a scripted tokio-tungstenite server endpoint in the same current-thread runtime over a loopback TCP pair: seeded partitions of the frame stream into binary messages (one per message, several, split anywhere, > 1020 and > 6120 bytes, every message starting inside a frame), interleaved text/ping/pong/empty messages and runs of 33..90 control messages, writes and write bursts against a late reader with minimal socket buffers (back-pressure), close handshake with any status code or abrupt drop, end of stream queued behind unread data, thousands of writes abandoned after two polls against a relay that has stopped reading (with a keep-alive to answer behind the backlog), sessions that use the adaptor directly as an AsyncRead through read_exact; reads must equal the model on the concatenated payloads without stalling, writes/keep-alive replies must arrive as exactly one binary message.",
   "Loopback TCP and tungstenite's protocol engine are real components; real time with a 3 s guard per call; HTTP upgrade to isrelay.lfs.net is bypassed with from_raw_socket.",
   "seeded lock-step scripting of the real adaptor against a scripted WebSocket server, sequential model on concatenated binary payloads"),
 "C19": ("exploration", "7/C19, 4.1",
   "Hand-polled tokio read futures dropped at scripted poll counts (0..16) any number of times per session, with Pending/short writes on both halves; differential oracle against the same session read uninterrupted through the same real code, plus whole-frame check of the captured outgoing bytes.",
   "Trusted: hand-rolled executor (poll_fn, one poll per step) on a paused current-thread runtime; no transport errors in this workload so that differences are attributable to cancellation.",
   "deterministic simulation: scheduler-controlled cancellation points, differential against uninterrupted run"),
}

def main():
    checks = []
    for pid, (cat, ref, text, note, tech) in sorted(CHECKS.items()):
        checks.append({
            "property_id": pid,
            "quick_cmd": f"./check {pid} quick",
            "thorough_cmd": f"./check {pid} thorough",
            "evidence_file": f"/verif/evidence/{pid}.json",
            "replay_cmd_template": f"./check {pid} --replay {{path}}",
            "engine": "insim_sim",
            "level_claimed": {"category": cat, "text": text, "design_ref": f"DESIGN.md section {ref}"},
            "level_note": note,
            "technique": tech,
        })
    na = [{"property_id": k, "reason": v} for k, v in sorted(NA.items()) if k not in CHECKS]
    extra_na = json.load(open(os.path.join(ROOT, "tools", "extra_na.json"))) if os.path.exists(os.path.join(ROOT, "tools", "extra_na.json")) else []
    m = {
        "version": 1,
        "setup_cmd": "./check build",
        "hooks": {
            "guard": "insim_verif",
            "enable": "no hooks are needed: the simulator links /repo's crates unmodified through cargo path dependencies (Framed::new takes the transport as a trait object; tokio's clock is paused by the harness); the guard name is reserved and unused",
            "baseline_off_cmd": "cd /repo && cargo test --workspace --no-fail-fast --offline",
            "source_commits": [],
            "add_only": True,
        },
        "engines": [{
            "name": "insim_sim",
            "path": "/verif/sim",
            "serves_properties": sorted(CHECKS.keys()),
            "kind_free_text": "hand-written deterministic simulator (Rust): seeded xoshiro256** scenario generator, scripted transport/peer/application stubs around the real insim Framed/Codec/adaptors, hand-polled tokio futures on a paused clock, sequential reference model + history checker, greedy scenario shrinker, replay files",
        }],
        "checks": checks,
        "not_applicable": na + extra_na,
        "notes": "VERIF_SEED (default 1) seeds every random choice; run i uses a seed derived from (VERIF_SEED, i). Exit 0 held / 1 VIOLATION line with replay file / 2 harness error. known_findings.json lists fixed and open findings. See DESIGN.md.",
    }
    json.dump(m, open(os.path.join(ROOT, "MANIFEST.json"), "w"), indent=1)
    print("wrote MANIFEST.json with", len(checks), "checks,", len(m["not_applicable"]), "not applicable")

if __name__ == "__main__":
    main()
