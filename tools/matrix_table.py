#!/usr/bin/env python3
"""Render seeded/MATRIX.txt (output of tools/run_seeded.sh -a) as the markdown table of DESIGN.md 12.6
and print per-round counts. usage: tools/matrix_table.py [matrix-file ...]  (cells of later files override)"""
import re
import sys

paths = sys.argv[1:] or ["/verif/seeded/MATRIX.txt"]
merged = {}
order = []
for path in paths:
    for line in open(path):
        m = re.match(r"^(C\d\d-[a-z]\d): (.*)$", line.strip())
        if not m:
            continue
        mid, rest = m.group(1), m.group(2)
        if mid not in merged:
            merged[mid] = {}
            order.append(mid)
        for c in re.finditer(r"(C\d\d)=(\d+)(?:\[([^\]]*)\])?", rest):
            # later files override earlier cells
            merged[mid][c.group(1)] = (int(c.group(2)), (c.group(3) or "").split(",") if c.group(3) else [])
rows = [(mid, merged[mid]) for mid in sorted(order)]

print("| change | own check (clauses) | other checks that also fail |")
print("|---|---|---|")
rounds = {}
for mid, cells in rows:
    own = mid.split("-")[0]
    rnd = mid.split("-")[1][0]
    ec, cl = cells.get(own, (0, []))
    caught = ec == 1
    r = rounds.setdefault(rnd, [0, 0])
    r[1] += 1
    if caught:
        r[0] += 1
        owncell = "**%s** %s" % (own, ", ".join(cl))
    elif ec == 2:
        owncell = "harness error (exit 2)"
    else:
        owncell = "— (not by its own check)"
    others = []
    for c in sorted(cells):
        if c == own:
            continue
        e, k = cells[c]
        if e == 1:
            others.append("%s %s" % (c, k[0] if k else "?"))
        elif e == 2:
            others.append("%s (exit 2: a required probe never fired)" % c)
    print("| %s | %s | %s |" % (mid, owncell, "; ".join(others)))
print()
print("caught by own check per round:", {k: "%d/%d" % tuple(v) for k, v in sorted(rounds.items())})
