#!/usr/bin/env bash
# Apply each seeded change in /verif/seeded/<id>/patch.diff to /repo, run the quick checks,
# undo the change straight afterwards, and print the detection matrix.
# usage: tools/run_seeded.sh [-a] [id ...]     -a = run all ten checks per change (default: only the targeted property)
set -u
cd "$(dirname "$0")/.."
ALL=0; if [ "${1:-}" = "-a" ]; then ALL=1; shift; fi
IDS="${*:-$(ls seeded)}"
CHECKS="C04 C05 C06 C07 C08 C09 C17 C18 C19 C20"
mkdir -p seeded/_results
if [ -n "$(git -C /repo status --porcelain --untracked-files=no)" ]; then echo "/repo has uncommitted changes; refusing"; exit 2; fi
for id in $IDS; do
  [ -f seeded/$id/patch.diff ] || continue
  target=${id%%-*}
  git -C /repo apply "$PWD/seeded/$id/patch.diff" || { echo "$id: patch does not apply"; continue; }
  line="$id:"
  if [ $ALL -eq 1 ]; then cs="$CHECKS"; else cs="$target"; fi
  for c in $cs; do
    ./check $c quick --no-evidence > seeded/_results/$id.$c.log 2>&1; ec=$?
    cl=$(grep -E "^violation:" seeded/_results/$id.$c.log | sed -E 's/^violation: clause=([^ ]+).*/\1/' | sort -u | paste -sd, )
    line="$line $c=$ec${cl:+[$cl]}"
  done
  git -C /repo checkout -- . && git -C /repo clean -fdq -- insim insim_core insim_pth insim_smx examples
  rm -f replays/*.json
  echo "$line"
done
