#!/usr/bin/env bash
# No alarm on the unchanged tree: every quick check at N other VERIF_SEED values (default 20).
# usage: tools/seeds.sh [N]
set -u
cd "$(dirname "$0")/.."
N=${1:-20}
./check build || exit 2
rc=0
for id in C04 C05 C06 C07 C08 C09 C17 C18 C19 C20; do
  bad=0
  for i in $(seq 1 $N); do
    seed=$((1000003 * i + 17))
    VERIF_SEED=$seed ./sim/target/release/insim_sim $id quick --no-evidence > /tmp/seeds.$id.log 2>&1
    ec=$?
    if [ $ec -ne 0 ]; then echo "$id seed=$seed exit=$ec: $(grep -E '^(violation|harness)' /tmp/seeds.$id.log | head -2)"; bad=$((bad+1)); rc=1; fi
  done
  echo "$id: $N seeds, $bad non-zero exits"
done
rm -f replays/*.json
exit $rc
