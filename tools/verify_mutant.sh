#!/usr/bin/env bash
# Confirm a seeded change in a scratch worktree: demo passes without the change, the existing
# suite (58 tests) passes with it, the demo fails with it. Never touches /repo.
# usage: tools/verify_mutant.sh <worktree> <mutant-dir> [crate (default insim)]
set -u
WT=$1; M=$2; CRATE=${3:-insim}
export CARGO_NET_OFFLINE=true
cd "$WT" || exit 2
git checkout -q -- . && git clean -qfd -e mutants
mkdir -p $CRATE/tests && cp "$M/demo.rs" $CRATE/tests/demo_x.rs
cargo test -p $CRATE --offline --test demo_x >/tmp/vm.1.log 2>&1; a=$?
rm -f $CRATE/tests/demo_x.rs; rmdir $CRATE/tests 2>/dev/null
git apply "$M/patch.diff" || { echo "patch does not apply"; exit 2; }
cargo test --workspace --offline >/tmp/vm.2.log 2>&1; b=$?
npass=$(grep -E "^test result: ok" /tmp/vm.2.log | sed -E 's/.* ([0-9]+) passed.*/\1/' | paste -sd+ | bc)
mkdir -p $CRATE/tests && cp "$M/demo.rs" $CRATE/tests/demo_x.rs
cargo test -p $CRATE --offline --test demo_x >/tmp/vm.3.log 2>&1; c=$?
git checkout -q -- . && git clean -qfd -e mutants
echo "demo-clean-exit=$a suite-with-patch-exit=$b passed=$npass demo-with-patch-exit=$c"
[ $a -eq 0 ] && [ $b -eq 0 ] && [ "$npass" = "58" ] && [ $c -ne 0 ]
